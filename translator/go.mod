module veriftranslator

go 1.23
