package main

// Source facts for property C16 (Gen/C16Source.lean), regenerated on every run: the printed bodies (white space
// normalised) of every Go function Model/EnvLayers.lean and Model/EnvLayersHeap.lean mirror, every call site of the two
// Project methods in the non-test sources (file, enclosing function, printed call: which option value reaches them),
// the statement of loader.Normalize that resolves `environment`, the calls of the loader's environment stage, and the
// initial value of the env_file format registry.  Props/C16Source.lean pins all of them: an edit to a modelled function
// breaks an obligation even when no generated input happens to tell the two versions apart (e.g. an aliasing slip such
// as storing the address of one shared variable in MappingWithEquals.Resolve, which a value-typed model cannot see).

import (
	"fmt"
	"go/ast"
	"go/token"
	"os"
	"path/filepath"
	"sort"
	"strings"
)

func init() { extraGenerators = append(extraGenerators, genC16Source) }

// c16CallSites lists "file:enclosing function:printed call" for every call of a method named `name`
// in the non-test Go files of the given package directories.
func c16CallSites(dirs []string, name string) []string {
	var out []string
	for _, dir := range dirs {
		ents, err := os.ReadDir(filepath.Join(repo, dir))
		if err != nil {
			out = append(out, "unknown:unreadable "+dir)
			continue
		}
		var files []string
		for _, e := range ents {
			n := e.Name()
			if e.IsDir() || !strings.HasSuffix(n, ".go") || strings.HasSuffix(n, "_test.go") || strings.HasPrefix(n, "verif_") {
				continue
			}
			files = append(files, n)
		}
		sort.Strings(files)
		for _, n := range files {
			rel := dir + "/" + n
			f := parse(rel)
			for _, d := range f.Decls {
				fd, ok := d.(*ast.FuncDecl)
				if !ok || fd.Body == nil {
					continue
				}
				ast.Inspect(fd.Body, func(nd ast.Node) bool {
					call, ok := nd.(*ast.CallExpr)
					if !ok {
						return true
					}
					if sel, ok := call.Fun.(*ast.SelectorExpr); ok && sel.Sel.Name == name {
						out = append(out, rel+":"+fd.Name.Name+":"+strings.Join(strings.Fields(src(call)), " "))
					} else if id, ok := call.Fun.(*ast.Ident); ok && id.Name == name {
						out = append(out, rel+":"+fd.Name.Name+":"+strings.Join(strings.Fields(src(call)), " "))
					}
					return true
				})
			}
		}
	}
	return out
}

// c16StmtContaining prints the innermost `if` statement of function `fn` whose text contains `needle`.
func c16StmtContaining(f *ast.File, fn, needle string) string {
	var fd *ast.FuncDecl
	for _, d := range f.Decls {
		if x, ok := d.(*ast.FuncDecl); ok && x.Name.Name == fn && x.Body != nil {
			fd = x
		}
	}
	if fd == nil {
		return "unknown:missing " + fn
	}
	out := "unknown:no statement with " + needle
	ast.Inspect(fd.Body, func(n ast.Node) bool {
		if is, ok := n.(*ast.IfStmt); ok {
			text := strings.Join(strings.Fields(src(is)), " ")
			if strings.Contains(text, needle) {
				out = text // keep descending: the innermost one wins
			}
		}
		return true
	})
	return out
}

// c16CallsIn lists, in source order, the callee of every call inside function `fn`.
func c16CallsIn(f *ast.File, fn string) []string {
	var out []string
	for _, d := range f.Decls {
		fd, ok := d.(*ast.FuncDecl)
		if !ok || fd.Name.Name != fn || fd.Body == nil {
			continue
		}
		ast.Inspect(fd.Body, func(n ast.Node) bool {
			if call, ok := n.(*ast.CallExpr); ok {
				out = append(out, strings.Join(strings.Fields(src(call.Fun)), " "))
			}
			return true
		})
	}
	if out == nil {
		return []string{"unknown:missing " + fn}
	}
	return out
}

// c16VarInit prints the initial value of a package-level variable.
func c16VarInit(f *ast.File, name string) string {
	for _, d := range f.Decls {
		g, ok := d.(*ast.GenDecl)
		if !ok || g.Tok != token.VAR {
			continue
		}
		for _, sp := range g.Specs {
			vs := sp.(*ast.ValueSpec)
			for i, n := range vs.Names {
				if n.Name == name && i < len(vs.Values) {
					return strings.Join(strings.Fields(src(vs.Values[i])), " ")
				}
			}
		}
	}
	return "unknown:missing var " + name
}

func genC16Source() (string, string) {
	var b strings.Builder
	b.WriteString(header + "namespace CV.Gen\n\n")
	mf := parse("types/mapping.go")
	lf := parse("types/labels.go")
	pf := parse("types/project.go")
	ef := parse("loader/environment.go")
	nf := parse("loader/normalize.go")
	ldf := parse("loader/loader.go")
	ff := parse("dotenv/format.go")
	cf := parse("cli/options.go")
	of := parse("override/merge.go")
	n := 0
	for _, e := range []struct {
		f              *ast.File
		recv, name, as string
	}{
		{mf, "MappingWithEquals", "OverrideBy", "MWE_OverrideBy"}, {mf, "MappingWithEquals", "Resolve", "MWE_Resolve"},
		{mf, "MappingWithEquals", "DecodeMapstructure", "MWE_DecodeMapstructure"}, {mf, "", "mappingValue", "mappingValue"},
		{mf, "", "NewMappingWithEquals", "NewMappingWithEquals"},
		{mf, "Mapping", "ToMappingWithEquals", "Mapping_ToMappingWithEquals"}, {mf, "Mapping", "Resolve", "Mapping_Resolve"},
		{lf, "", "NewLabelsFromMappingWithEquals", "NewLabelsFromMappingWithEquals"},
		{lf, "Labels", "ToMappingWithEquals", "Labels_ToMappingWithEquals"},
		{lf, "Labels", "DecodeMapstructure", "Labels_DecodeMapstructure"}, {lf, "", "labelValue", "labelValue"},
		{pf, "Project", "WithServicesEnvironmentResolved", "WithServicesEnvironmentResolved"},
		{pf, "Project", "WithServicesLabelsResolved", "WithServicesLabelsResolved"},
		{pf, "Project", "WithServicesEnabled", "WithServicesEnabled"},
		{pf, "", "fileIsMissing", "fileIsMissing"}, {pf, "", "loadEnvFile", "loadEnvFile"}, {pf, "", "loadLabelFile", "loadLabelFile"},
		{pf, "", "loadMappingFile", "loadMappingFile"},
		{ef, "", "ResolveEnvironment", "ResolveEnvironment"}, {ef, "", "resolveServicesEnvironment", "resolveServicesEnvironment"},
		{nf, "", "resolve", "normalize_resolve"},
		{ldf, "", "WithDiscardEnvFiles", "WithDiscardEnvFiles"},
		{ff, "", "ParseWithFormat", "ParseWithFormat"}, {ff, "", "RegisterFormat", "RegisterFormat"},
		// round 6: the option behind the second call site; how env_file / label_file lists of two layers (override file,
		// extends base + own entries) are put together
		{cf, "", "WithoutEnvironmentResolution", "WithoutEnvironmentResolution"}, {of, "", "mergeToSequence", "mergeToSequence"},
	} {
		fmt.Fprintf(&b, "def c16_body_%s : String := %s\n", e.as, leanStr(funcBody(e.f, e.recv, e.name)))
		n++
	}
	dirs := []string{"cli", "loader", "types"}
	fmt.Fprintf(&b, "/-- every call of WithServicesEnvironmentResolved outside tests: file:function:call -/\ndef c16_calls_envResolved : List String := [%s]\n",
		joinLean(c16CallSites(dirs, "WithServicesEnvironmentResolved")))
	fmt.Fprintf(&b, "/-- every call of WithServicesLabelsResolved outside tests -/\ndef c16_calls_labelsResolved : List String := [%s]\n",
		joinLean(c16CallSites(dirs, "WithServicesLabelsResolved")))
	fmt.Fprintf(&b, "/-- every call of loadEnvFile / loadLabelFile / loadMappingFile outside tests -/\ndef c16_calls_loadFile : List String := [%s]\n",
		joinLean(append(append(c16CallSites([]string{"types"}, "loadEnvFile"), c16CallSites([]string{"types"}, "loadLabelFile")...), c16CallSites([]string{"types"}, "loadMappingFile")...)))
	fmt.Fprintf(&b, "/-- every call of ResolveEnvironment / resolveServicesEnvironment outside tests -/\ndef c16_calls_resolveEnvironment : List String := [%s]\n",
		joinLean(append(c16CallSites([]string{"loader"}, "ResolveEnvironment"), c16CallSites([]string{"loader"}, "resolveServicesEnvironment")...)))
	fmt.Fprintf(&b, "/-- every read of the private option discardEnvFiles in loader/loader.go is one of these calls or the clone; every assignment -/\ndef c16_calls_optionsClone : List String := [%s]\n",
		joinLean(c16CallSites([]string{"loader"}, "clone")))
	fmt.Fprintf(&b, "/-- loader.Normalize: the statement that resolves value-less `environment` entries -/\ndef c16_normalize_environment : String := %s\n",
		leanStr(c16StmtContaining(nf, "Normalize", "service[\"environment\"]")))
	fmt.Fprintf(&b, "/-- loader.modelToProject: the statement that runs environment resolution, and every call of the function in source order -/\ndef c16_modelToProject_env : String := %s\ndef c16_modelToProject_calls : List String := [%s]\n",
		leanStr(c16StmtContaining(ldf, "modelToProject", "WithServicesEnvironmentResolved(")),
		joinLean(c16CallsIn(ldf, "modelToProject")))
	fmt.Fprintf(&b, "/-- dotenv/format.go: the registry of env_file formats as the library initialises it -/\ndef c16_formats_init : String := %s\n",
		leanStr(c16VarInit(ff, "formats")))
	b.WriteString("\nend CV.Gen\n")
	fmt.Fprintf(logw, "C16 source facts: %d function bodies\n", n)
	return "C16Source.lean", b.String()
}
