package main

// C12: constants of package paths the Lean model (Model/Paths.lean) was written against:
// the remote-context prefixes of isRemoteContext, the string literals of absContextPath,
// the literals compared by absVolumeMount / volumeDriverOpts, and ExpandUser's prefix.

import (
	"fmt"
	"go/ast"
	"go/token"
	"strconv"
	"strings"
)

// stringLits lists the string literals inside function `name` of file f, in source order.
func stringLits(f *ast.File, name string) []string {
	var res []string
	for _, d := range f.Decls {
		fd, ok := d.(*ast.FuncDecl)
		if !ok || fd.Name.Name != name || fd.Body == nil {
			continue
		}
		ast.Inspect(fd.Body, func(n ast.Node) bool {
			if bl, ok := n.(*ast.BasicLit); ok && bl.Kind == token.STRING {
				if s, err := strconv.Unquote(bl.Value); err == nil {
					res = append(res, s)
				}
			}
			return true
		})
	}
	return res
}

// constString returns the value of `const name = "literal"` (possibly typed) in f.
func constString(f *ast.File, name string) string {
	return stringVar(f, name)
}

func init() {
	extraGenerators = append(extraGenerators, func() (string, string) {
		var b strings.Builder
		b.WriteString(header + "namespace CV.Gen\n\n")
		ctx := parse("paths/context.go")
		fmt.Fprintf(&b, "/-- paths/context.go isRemoteContext: string literals in source order (the prefix list) -/\ndef paths_remotePrefixes : List String := [%s]\n", joinLean(stringLits(ctx, "isRemoteContext")))
		fmt.Fprintf(&b, "/-- paths/context.go absContextPath: string literals in source order -/\ndef paths_contextLits : List String := [%s]\n", joinLean(stringLits(ctx, "absContextPath")))
		home := parse("paths/home.go")
		fmt.Fprintf(&b, "/-- paths/home.go ExpandUser: string literals in source order (prefix, then the warning text) -/\ndef paths_expandUserLits : List String := [%s]\n", joinLean(stringLits(home, "ExpandUser")))
		res := parse("paths/resolve.go")
		fmt.Fprintf(&b, "/-- paths/resolve.go absVolumeMount: string literals in source order -/\ndef paths_volumeMountLits : List String := [%s]\n", joinLean(stringLits(res, "absVolumeMount")))
		fmt.Fprintf(&b, "/-- paths/resolve.go volumeDriverOpts: string literals in source order -/\ndef paths_driverOptsLits : List String := [%s]\n", joinLean(stringLits(res, "volumeDriverOpts")))
		ty := parse("types/types.go")
		fmt.Fprintf(&b, "/-- types.VolumeTypeBind -/\ndef types_VolumeTypeBind : String := %s\n", leanStr(constString(ty, "VolumeTypeBind")))
		b.WriteString("\nend CV.Gen\n")
		fmt.Fprintf(logw, "paths consts: %d remote prefixes\n", len(stringLits(ctx, "isRemoteContext")))
		return "PathsConsts.lean", b.String()
	})
}
