package main

// C12: constants of package paths the Lean model (Model/Paths.lean) was written against:
// the remote-context prefixes of isRemoteContext, the string literals of absContextPath,
// the literals compared by absVolumeMount / volumeDriverOpts, and ExpandUser's prefix.

import (
	"fmt"
	"go/ast"
	"go/token"
	"os"
	"path/filepath"
	"strconv"
	"strings"
)

// stringLits lists the string literals inside function `name` of file f, in source order.
func stringLits(f *ast.File, name string) []string {
	var res []string
	for _, d := range f.Decls {
		fd, ok := d.(*ast.FuncDecl)
		if !ok || fd.Name.Name != name || fd.Body == nil {
			continue
		}
		ast.Inspect(fd.Body, func(n ast.Node) bool {
			if bl, ok := n.(*ast.BasicLit); ok && bl.Kind == token.STRING {
				if s, err := strconv.Unquote(bl.Value); err == nil {
					res = append(res, s)
				}
			}
			return true
		})
	}
	return res
}

// constString returns the value of `const name = "literal"` (possibly typed) in f.
func constString(f *ast.File, name string) string {
	return stringVar(f, name)
}

// c12SourceFacts: package-level state of paths/ and utils/ (there must be none: resolution is a pure function of the
// tree, the base directory, $HOME and the file system), and the printed bodies of every function Model/Paths*.lean mirrors.
func c12SourceFacts(b *strings.Builder) {
	var files, vars []string
	for _, dir := range []string{"paths", "utils"} {
		ents, _ := os.ReadDir(filepath.Join(repo, dir))
		for _, e := range ents {
			n := e.Name()
			if e.IsDir() || !strings.HasSuffix(n, ".go") || strings.HasSuffix(n, "_test.go") {
				continue
			}
			f := parse(dir + "/" + n)
			if !fileInNormalBuild(f) {
				continue // e.g. the verif-tagged export files
			}
			files = append(files, dir+"/"+n)
			for _, d := range f.Decls {
				if g, ok := d.(*ast.GenDecl); ok && g.Tok == token.VAR {
					for _, sp := range g.Specs {
						for _, id := range sp.(*ast.ValueSpec).Names {
							vars = append(vars, dir+"."+id.Name)
						}
					}
				}
			}
		}
	}
	fmt.Fprintf(b, "\n/-- the non-test, normally built files of packages paths and utils that were scanned -/\ndef paths_scannedFiles : List String := [%s]\n", joinLean(files))
	fmt.Fprintf(b, "/-- every package-level `var` of those files (package.name) -/\ndef paths_packageVars : List String := [%s]\n\n", joinLean(vars))
	type fn struct{ file, recv, name string }
	for _, x := range []fn{
		{"paths/resolve.go", "", "ResolveRelativePaths"}, {"paths/resolve.go", "relativePathsResolver", "isRemoteResource"},
		{"paths/resolve.go", "relativePathsResolver", "resolveRelativePaths"}, {"paths/resolve.go", "relativePathsResolver", "absPath"},
		{"paths/resolve.go", "relativePathsResolver", "join"}, {"paths/resolve.go", "relativePathsResolver", "absVolumeMount"},
		{"paths/resolve.go", "relativePathsResolver", "volumeDriverOpts"},
		{"paths/context.go", "relativePathsResolver", "absContextPath"}, {"paths/context.go", "", "isRemoteContext"},
		{"paths/unix.go", "relativePathsResolver", "maybeUnixPath"}, {"paths/unix.go", "relativePathsResolver", "absSymbolicLink"},
		{"paths/extends.go", "relativePathsResolver", "absExtendsPath"}, {"paths/home.go", "", "ExpandUser"},
		{"paths/windows_path.go", "", "isSlash"}, {"paths/windows_path.go", "", "isWindowsAbs"}, {"paths/windows_path.go", "", "volumeNameLen"},
		{"utils/pathutils.go", "", "ResolveSymbolicLink"}, {"utils/pathutils.go", "", "getSymbolinkLink"}, {"utils/pathutils.go", "", "isSymbolicLink"},
		{"loader/loader.go", "localResourceLoader", "abs"}, {"loader/loader.go", "localResourceLoader", "Load"}, {"loader/loader.go", "localResourceLoader", "Dir"},
	} {
		fmt.Fprintf(b, "def paths_body_%s : String := %s\n", x.name, leanStr(funcBody(parse(x.file), x.recv, x.name)))
	}
	// round 6: how the resource-loader list of a nested load is derived from the parent's (Model/PathsLoaders.lean)
	fmt.Fprintf(b, "def paths_body_RemoteResourceLoaders : String := %s\n", leanStr(funcBody(parse("loader/loader.go"), "Options", "RemoteResourceLoaders")))
	fmt.Fprintf(b, "/-- every assignment to a `ResourceLoaders` field in the non-test files of package loader: (file, function, statement) -/\ndef paths_loaderAssignments : List (String × String × String) := [%s]\n",
		strings.Join(c12LoaderAssignments(), ", "))
	// round 7: the state a load carries into its nested loads.  A new field of Options (a cache, a memo, a counter)
	// that `clone` hands to every include / extends child is state shared between loads of DIFFERENT directories.
	lf := parse("loader/loader.go")
	var fields []string
	for _, d := range lf.Decls {
		g, ok := d.(*ast.GenDecl)
		if !ok || g.Tok != token.TYPE {
			continue
		}
		for _, sp := range g.Specs {
			ts := sp.(*ast.TypeSpec)
			st, ok := ts.Type.(*ast.StructType)
			if !ok || ts.Name.Name != "Options" {
				continue
			}
			for _, fl := range st.Fields.List {
				ty := strings.Join(strings.Fields(src(fl.Type)), " ")
				if len(fl.Names) == 0 {
					fields = append(fields, "(embedded) "+ty)
				}
				for _, id := range fl.Names {
					fields = append(fields, id.Name+" "+ty)
				}
			}
		}
	}
	fmt.Fprintf(b, "/-- loader/loader.go `type Options struct`: every field (name type) in source order -/\ndef paths_optionsFields : List String := [%s]\n", joinLean(fields))
	fmt.Fprintf(b, "def paths_body_clone : String := %s\n", leanStr(funcBody(lf, "Options", "clone")))
	fmt.Fprintf(b, "def paths_body_getExtendsBaseFromFile : String := %s\n", leanStr(funcBody(parse("loader/extends.go"), "", "getExtendsBaseFromFile")))
}

// c12LoaderAssignments lists every statement of package loader (normal build) that assigns to a field named ResourceLoaders.
func c12LoaderAssignments() []string {
	var res []string
	ents, _ := os.ReadDir(filepath.Join(repo, "loader"))
	for _, e := range ents {
		n := e.Name()
		if e.IsDir() || !strings.HasSuffix(n, ".go") || strings.HasSuffix(n, "_test.go") {
			continue
		}
		f := parse("loader/" + n)
		if !fileInNormalBuild(f) {
			continue
		}
		for _, d := range f.Decls {
			fd, ok := d.(*ast.FuncDecl)
			if !ok || fd.Body == nil {
				continue
			}
			ast.Inspect(fd.Body, func(nd ast.Node) bool {
				switch x := nd.(type) {
				case *ast.AssignStmt:
					for _, l := range x.Lhs {
						if sel, ok := l.(*ast.SelectorExpr); ok && sel.Sel.Name == "ResourceLoaders" {
							res = append(res, fmt.Sprintf("(%s, %s, %s)", leanStr("loader/"+n), leanStr(fd.Name.Name), leanStr(strings.Join(strings.Fields(src(x)), " "))))
						}
					}
				case *ast.KeyValueExpr:
					if id, ok := x.Key.(*ast.Ident); ok && id.Name == "ResourceLoaders" {
						res = append(res, fmt.Sprintf("(%s, %s, %s)", leanStr("loader/"+n), leanStr(fd.Name.Name), leanStr(strings.Join(strings.Fields(src(x)), " "))))
					}
				}
				return true
			})
		}
	}
	return res
}

func init() {
	extraGenerators = append(extraGenerators, func() (string, string) {
		var b strings.Builder
		b.WriteString(header + "namespace CV.Gen\n\n")
		ctx := parse("paths/context.go")
		fmt.Fprintf(&b, "/-- paths/context.go isRemoteContext: string literals in source order (the prefix list) -/\ndef paths_remotePrefixes : List String := [%s]\n", joinLean(stringLits(ctx, "isRemoteContext")))
		fmt.Fprintf(&b, "/-- paths/context.go absContextPath: string literals in source order -/\ndef paths_contextLits : List String := [%s]\n", joinLean(stringLits(ctx, "absContextPath")))
		home := parse("paths/home.go")
		fmt.Fprintf(&b, "/-- paths/home.go ExpandUser: string literals in source order (prefix, then the warning text) -/\ndef paths_expandUserLits : List String := [%s]\n", joinLean(stringLits(home, "ExpandUser")))
		res := parse("paths/resolve.go")
		fmt.Fprintf(&b, "/-- paths/resolve.go absVolumeMount: string literals in source order -/\ndef paths_volumeMountLits : List String := [%s]\n", joinLean(stringLits(res, "absVolumeMount")))
		fmt.Fprintf(&b, "/-- paths/resolve.go volumeDriverOpts: string literals in source order -/\ndef paths_driverOptsLits : List String := [%s]\n", joinLean(stringLits(res, "volumeDriverOpts")))
		ty := parse("types/types.go")
		fmt.Fprintf(&b, "/-- types.VolumeTypeBind -/\ndef types_VolumeTypeBind : String := %s\n", leanStr(constString(ty, "VolumeTypeBind")))
		c12SourceFacts(&b)
		b.WriteString("\nend CV.Gen\n")
		fmt.Fprintf(logw, "paths consts: %d remote prefixes\n", len(stringLits(ctx, "isRemoteContext")))
		return "PathsConsts.lean", b.String()
	})
}
