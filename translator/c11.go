package main

// Facts for property C11, regenerated from the source on every run (Gen/C11Facts.lean): the printed bodies
// (space-normalised, comments dropped) of every function the C11 models mirror — loader/normalize.go and the
// defaulting functions of package transform.  Props/C11.lean pins them (`modelled_functions_are_source`), so any
// edit to one of these functions breaks a proof obligation on top of whatever the correspondence finds.

import (
	"fmt"
	"go/ast"
	"strings"
)

// c11GuardedBlock prints (space-normalised) the if-statement of function fn whose condition is cond — the glue
// statement is pinned, not the whole function (the rest of `load` belongs to other owners).
func c11GuardedBlock(f *ast.File, fn, cond string) string {
	out := "unknown:missing " + fn + " / if " + cond
	n := 0
	for _, d := range f.Decls {
		fd, ok := d.(*ast.FuncDecl)
		if !ok || fd.Name.Name != fn || fd.Body == nil || fd.Recv != nil {
			continue
		}
		ast.Inspect(fd.Body, func(x ast.Node) bool {
			if is, ok := x.(*ast.IfStmt); ok && is.Init == nil && norm(src(is.Cond)) == cond {
				out = norm(src(is))
				n++
			}
			return true
		})
	}
	if n > 1 {
		return fmt.Sprintf("unknown:%d blocks guarded by %s in %s", n, cond, fn)
	}
	return out
}

func init() { extraGenerators = append(extraGenerators, genC11Facts) }

func genC11Facts() (string, string) {
	var b strings.Builder
	b.WriteString(header + "namespace CV.Gen\n\n")
	nf := parse("loader/normalize.go")
	df := parse("transform/defaults.go")
	entries := []struct{ name, body string }{
		{"c11_body_Normalize", funcBody(nf, "", "Normalize")},
		{"c11_body_normalizeNetworks", funcBody(nf, "", "normalizeNetworks")},
		{"c11_body_resolve", funcBody(nf, "", "resolve")},
		{"c11_body_setNameFromKey", funcBody(nf, "", "setNameFromKey")},
		{"c11_body_isTrue", funcBody(nf, "", "isTrue")},
		{"c11_body_SetDefaultValues", funcBody(df, "", "SetDefaultValues")},
		{"c11_body_setDefaults", funcBody(df, "", "setDefaults")},
		{"c11_body_setDefaultsSequence", funcBody(df, "", "setDefaultsSequence")},
		{"c11_body_setDefaultsMapping", funcBody(df, "", "setDefaultsMapping")},
		{"c11_body_defaultBuildContext", funcBody(parse("transform/build.go"), "", "defaultBuildContext")},
		{"c11_body_defaultSecretMount", funcBody(parse("transform/secrets.go"), "", "defaultSecretMount")},
		{"c11_body_portDefaults", funcBody(parse("transform/ports.go"), "", "portDefaults")},
		{"c11_body_deviceRequestDefaults", funcBody(parse("transform/devices.go"), "", "deviceRequestDefaults")},
		{"c11_body_transformDependsOn", funcBody(parse("transform/dependson.go"), "", "transformDependsOn")},
		{"c11_body_transformEnvFile", funcBody(parse("transform/envfile.go"), "", "transformEnvFile")},
		{"c11_body_transformEnvFileValue", funcBody(parse("transform/envfile.go"), "", "transformEnvFileValue")},
		// the defaults inside the unicity keys (override/uncity.go), modelled in Model/C11Keys.lean
		{"c11_body_portIndexer", funcBody(parse("override/uncity.go"), "", "portIndexer")},
		{"c11_body_mountIndexer", funcBody(parse("override/uncity.go"), "", "mountIndexer")},
		{"c11_body_envFileIndexer", funcBody(parse("override/uncity.go"), "", "envFileIndexer")},
		{"c11_body_enforceUnicity", funcBody(parse("override/uncity.go"), "", "enforceUnicity")},
	}
	// round 7: the merge of a short-syntax build must not complete it with a default (Props/C11Merge.lean)
	entries = append(entries, struct{ name, body string }{"c11_body_mergeBuild", funcBody(parse("override/merge.go"), "", "mergeBuild")})
	// the tail of loader.load: `name` forced to the resolved project name, then Normalize (Pipeline.finishLoad)
	entries = append(entries, struct{ name, body string }{"c11_stmt_load_normalize", c11GuardedBlock(parse("loader/loader.go"), "load", "!opts.SkipNormalization")})
	for _, e := range entries {
		fmt.Fprintf(&b, "def %s : String := %s\n", e.name, leanStr(e.body))
	}
	b.WriteString("\nend CV.Gen\n")
	fmt.Fprintf(logw, "C11 facts: %d function bodies\n", len(entries))
	return "C11Facts.lean", b.String()
}
