package main

// Facts for property C08 (Gen/C08Facts.lean), regenerated on every run:
//   c08_castHook     the decode-time string conversion of loader/mapstructure.go `cast`: for a string source, which
//                    reflect.Kind of the target is converted by which caster (in source order)
//   c08_casterCalls  the functions each caster of loader/interpolate.go calls (so that a caster whose implementation
//                    stops going through the modelled parser breaks a theorem, not only the correspondence)
//   c08_cloneCopies  the fields Options.clone() copies (per-file option sets for extends / include)

import (
	"fmt"
	"go/ast"
	"os"
	"path/filepath"
	"sort"
	"strings"
)

func init() { extraGenerators = append(extraGenerators, c08GenFacts) }

func c08FuncDecl(f *ast.File, name string) *ast.FuncDecl {
	for _, d := range f.Decls {
		if fd, ok := d.(*ast.FuncDecl); ok && fd.Name.Name == name {
			return fd
		}
	}
	return nil
}

// c08CastHook reads `switch from.Type().Kind() { case reflect.String: switch to.Kind() { case reflect.X: return f(from.String()) … } }`.
func c08CastHook(f *ast.File) [][2]string {
	var out [][2]string
	fd := c08FuncDecl(f, "cast")
	if fd == nil {
		return [][2]string{{"?no func cast", "unknown"}}
	}
	for _, st := range fd.Body.List {
		sw, ok := st.(*ast.SwitchStmt)
		if !ok {
			continue
		}
		for _, c := range sw.Body.List {
			cc := c.(*ast.CaseClause)
			if len(cc.List) != 1 || src(cc.List[0]) != "reflect.String" {
				continue
			}
			for _, inner := range cc.Body {
				isw, ok := inner.(*ast.SwitchStmt)
				if !ok {
					out = append(out, [2]string{"?" + src(inner), "unknown"})
					continue
				}
				if src(isw.Tag) != "to.Kind()" {
					out = append(out, [2]string{"?" + src(isw.Tag), "unknown"})
					continue
				}
				for _, ic := range isw.Body.List {
					icc := ic.(*ast.CaseClause)
					callee := "unknown"
					if len(icc.Body) == 1 {
						if rs, ok := icc.Body[0].(*ast.ReturnStmt); ok && len(rs.Results) == 1 {
							if call, ok := rs.Results[0].(*ast.CallExpr); ok && len(call.Args) == 1 && src(call.Args[0]) == "from.String()" {
								callee = src(call.Fun)
							}
						}
					}
					for _, e := range icc.List {
						k := src(e)
						if strings.HasPrefix(k, "reflect.") {
							k = strings.TrimPrefix(k, "reflect.")
						} else {
							k = "?" + k
						}
						out = append(out, [2]string{k, callee})
					}
				}
			}
		}
	}
	return out
}

func c08Calls(fd *ast.FuncDecl) []string {
	seen := map[string]bool{}
	if fd == nil {
		return []string{"?missing"}
	}
	ast.Inspect(fd.Body, func(n ast.Node) bool {
		if call, ok := n.(*ast.CallExpr); ok {
			seen[src(call.Fun)] = true
		}
		return true
	})
	var l []string
	for k := range seen {
		l = append(l, k)
	}
	sort.Strings(l)
	return l
}

// c08OptionSites lists, for the given loader files, every composite literal of type interp.Options
// ("file:func: Field=source, …") and every condition guarding a call of interp.Interpolate ("file:func: cond").
func c08OptionSites(files []string) (lits []string, guards []string) {
	for _, rel := range files {
		f := parse(rel)
		for _, d := range f.Decls {
			fd, ok := d.(*ast.FuncDecl)
			if !ok || fd.Body == nil {
				continue
			}
			where := rel + ":" + fd.Name.Name
			ast.Inspect(fd.Body, func(n ast.Node) bool {
				switch x := n.(type) {
				case *ast.CompositeLit:
					if x.Type != nil && src(x.Type) == "interp.Options" {
						var fs []string
						for _, e := range x.Elts {
							if kv, ok := e.(*ast.KeyValueExpr); ok {
								fs = append(fs, src(kv.Key)+"="+src(kv.Value))
							} else {
								fs = append(fs, "?"+src(e))
							}
						}
						lits = append(lits, where+": "+strings.Join(fs, ", "))
					}
				case *ast.IfStmt:
					calls := false
					ast.Inspect(x.Body, func(m ast.Node) bool {
						if _, nested := m.(*ast.IfStmt); nested && m != ast.Node(x) {
							return false
						}
						if c, ok := m.(*ast.CallExpr); ok && src(c.Fun) == "interp.Interpolate" {
							calls = true
						}
						return true
					})
					if calls {
						guards = append(guards, where+": "+src(x.Cond))
					}
				}
				return true
			})
		}
	}
	return
}

// c08UnguardedInterpolate counts the calls of interp.Interpolate in the loader that are not inside any if statement
// whose condition mentions SkipInterpolation.
func c08UnguardedInterpolate(files []string) []string {
	var out []string
	for _, rel := range files {
		f := parse(rel)
		for _, d := range f.Decls {
			fd, ok := d.(*ast.FuncDecl)
			if !ok || fd.Body == nil {
				continue
			}
			var walk func(n ast.Node, guarded bool)
			walk = func(n ast.Node, guarded bool) {
				ast.Inspect(n, func(m ast.Node) bool {
					if m == n {
						return true
					}
					switch x := m.(type) {
					case *ast.IfStmt:
						g := guarded || strings.Contains(src(x.Cond), "!opts.SkipInterpolation")
						if x.Init != nil {
							walk(x.Init, guarded)
						}
						walk(x.Body, g)
						if x.Else != nil {
							walk(x.Else, guarded)
						}
						return false
					case *ast.CallExpr:
						if src(x.Fun) == "interp.Interpolate" && !guarded {
							out = append(out, rel+":"+fd.Name.Name)
						}
					}
					return true
				})
			}
			walk(fd.Body, false)
		}
	}
	return out
}

// c08SkipInterpolationUses lists every read or write of a `SkipInterpolation` field in the (non-test, non-hook) files of
// the given packages, with the innermost enclosing call / composite-literal entry / if-condition / assignment: where the
// flag enters the pipeline (round 6: `Props/C08Whole.load_eq_loadG` says "at the interpolation stage and at Canonical").
func c08SkipInterpolationUses(dirs []string) []string {
	var out []string
	for _, dir := range dirs {
		ents, _ := os.ReadDir(filepath.Join(repo, dir))
		for _, e := range ents {
			n := e.Name()
			if !strings.HasSuffix(n, ".go") || strings.HasSuffix(n, "_test.go") || strings.HasPrefix(n, "verif_") {
				continue
			}
			rel := dir + "/" + n
			f := parse(rel)
			for _, d := range f.Decls {
				fd, ok := d.(*ast.FuncDecl)
				if !ok || fd.Body == nil {
					continue
				}
				var stack []ast.Node
				ast.Inspect(fd.Body, func(m ast.Node) bool {
					if m == nil {
						stack = stack[:len(stack)-1]
						return true
					}
					stack = append(stack, m)
					se, ok := m.(*ast.SelectorExpr)
					if !ok || se.Sel.Name != "SkipInterpolation" {
						return true
					}
					ctx := src(se)
					for i := len(stack) - 2; i >= 0; i-- {
						switch x := stack[i].(type) {
						case *ast.CallExpr:
							ctx = src(x)
						case *ast.KeyValueExpr:
							ctx = src(x)
						case *ast.AssignStmt:
							ctx = src(x)
						case *ast.IfStmt:
							ctx = "if " + src(x.Cond)
						default:
							continue
						}
						break
					}
					out = append(out, rel+":"+fd.Name.Name+": "+ctx)
					return true
				})
			}
		}
	}
	sort.Strings(out)
	return out
}

func c08GenFacts() (string, string) {
	var b strings.Builder
	b.WriteString(header + "namespace CV.Gen\n\n")
	hook := c08CastHook(parse("loader/mapstructure.go"))
	b.WriteString("/-- loader/mapstructure.go `cast`, string source: (reflect.Kind of the target, caster) in source order -/\ndef c08_castHook : List (String × String) := [")
	for i, r := range hook {
		if i > 0 {
			b.WriteString(", ")
		}
		fmt.Fprintf(&b, "(%s, %s)", leanStr(r[0]), leanStr(r[1]))
	}
	b.WriteString("]\n\n")
	ip := parse("loader/interpolate.go")
	b.WriteString("/-- the functions each caster of loader/interpolate.go calls -/\ndef c08_casterCalls : List (String × List String) := [")
	for i, n := range []string{"toInt", "toInt64", "toFloat", "toFloat32", "toBoolean"} {
		if i > 0 {
			b.WriteString(",")
		}
		fmt.Fprintf(&b, "\n  (%s, [%s])", leanStr(n), joinLean(c08Calls(c08FuncDecl(ip, n))))
	}
	b.WriteString("]\n\n")
	// fields copied by Options.clone()
	var copied []string
	if fd := c08FuncDecl(parse("loader/loader.go"), "clone"); fd != nil {
		ast.Inspect(fd.Body, func(n ast.Node) bool {
			if kv, ok := n.(*ast.KeyValueExpr); ok {
				copied = append(copied, src(kv.Key)+"="+src(kv.Value))
			}
			return true
		})
	}
	fmt.Fprintf(&b, "/-- loader/loader.go Options.clone(): `Field=source` pairs of the composite literal -/\ndef c08_cloneCopies : List String := [%s]\n", joinLean(copied))
	// where the loader builds interpolation options and where it calls Interpolate
	loaderFiles := []string{"loader/loader.go", "loader/include.go", "loader/extends.go"}
	lits, guards := c08OptionSites(loaderFiles)
	fmt.Fprintf(&b, "/-- every `interp.Options{…}` literal of the loader: `file:func: Field=source, …` -/\ndef c08_optionLiterals : List String := [%s]\n", joinLean(lits))
	fmt.Fprintf(&b, "/-- every condition guarding a call of `interp.Interpolate` in the loader: `file:func: cond` -/\ndef c08_interpolateGuards : List String := [%s]\n", joinLean(guards))
	fmt.Fprintf(&b, "/-- calls of `interp.Interpolate` in the loader outside every `!opts.SkipInterpolation` guard -/\ndef c08_unguardedInterpolate : List String := [%s]\n", joinLean(c08UnguardedInterpolate(loaderFiles)))
	fmt.Fprintf(&b, "/-- every use of a `SkipInterpolation` field in loader/ and cli/: `file:func: innermost enclosing call / literal entry / condition` -/\ndef c08_skipInterpolationUses : List String := [%s]\n", joinLean(c08SkipInterpolationUses([]string{"cli", "loader"})))
	// printed bodies (without comments) of the functions the C08 models were written against
	ipl := parse("interpolation/interpolation.go")
	ms := parse("loader/mapstructure.go")
	// the YAML number readers live in utils/stringutils.go since the round-5 repair (utils.ParseYAMLInt / ParseYAMLFloat);
	// on a tree that still has them in loader/interpolate.go read them there, so that only C08's pin breaks
	yn, ynInt, ynFloat := parse("utils/stringutils.go"), "ParseYAMLInt", "ParseYAMLFloat"
	if c08FuncDecl(yn, ynInt) == nil {
		yn, ynInt, ynFloat = ip, "parseYAMLInt", "parseYAMLFloat"
	}
	bodies := [][2]string{
		{"c08_body_Interpolate", funcBody(ipl, "", "Interpolate")},
		{"c08_body_recursiveInterpolate", funcBody(ipl, "", "recursiveInterpolate")},
		{"c08_body_newPathError", funcBody(ipl, "", "newPathError")},
		{"c08_body_getCasterForPath", funcBody(ipl, "Options", "getCasterForPath")},
		{"c08_body_parseYAMLInt", funcBody(yn, "", ynInt)},
		{"c08_body_parseYAMLFloat", funcBody(yn, "", ynFloat)},
		{"c08_body_toInt", funcBody(ip, "", "toInt")},
		{"c08_body_toInt64", funcBody(ip, "", "toInt64")},
		{"c08_body_toFloat", funcBody(ip, "", "toFloat")},
		{"c08_body_toFloat32", funcBody(ip, "", "toFloat32")},
		{"c08_body_toBoolean", funcBody(ip, "", "toBoolean")},
		{"c08_body_cast", funcBody(ms, "", "cast")},
		{"c08_body_DeviceCount_DecodeMapstructure", funcBody(parse("types/device.go"), "DeviceCount", "DecodeMapstructure")},
		{"c08_body_NanoCPUs_DecodeMapstructure", funcBody(parse("types/cpus.go"), "NanoCPUs", "DecodeMapstructure")},
		{"c08_body_UnitBytes_DecodeMapstructure", funcBody(parse("types/bytes.go"), "UnitBytes", "DecodeMapstructure")},
	}
	b.WriteString("\n")
	for _, kv := range bodies {
		fmt.Fprintf(&b, "def %s : String := %s\n", kv[0], leanStr(kv[1]))
	}
	b.WriteString("\nend CV.Gen\n")
	fmt.Fprintf(logw, "C08 facts: cast hook %d kinds, clone copies %d fields\n", len(hook), len(copied))
	return "C08Facts.lean", b.String()
}
