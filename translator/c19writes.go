package main

// Gen/ConcWrites.lean (C19, round 6) — what the goroutines of the library's own parallel operations may WRITE.
//
// For each parallel operation (graph.walk — the dependency-ordered traversal; types.(*Project).WithServicesTransform —
// the per-service fan-out) the PARALLEL REGION is: the statements of the function from its first `eg.Go(…)` / `go …`
// statement to its end (closures included) and every function of the same package reachable from a call in that region
// (name-based: `f(…)` and `x.m(…)` reach every function / method of the package called `f` / `m` — over-approximating).
//
// Facts, regenerated on every run:
//   - `<op>ParallelFuncs`: the functions of the region;
//   - `<op>ParallelWrites`: every store in the region that is not a store to a variable local to the innermost function
//     (literal) executing it: struct-field stores `x.f = …` / `x.f++` / `x.f = append(x.f, …)`, map / slice element stores
//     `x[k] = …`, `delete(x, k)`, `clear(x)`, stores through pointers `*p = …`, `&x.f` / `&x[k]` (address taken), calls of
//     mutating helpers (`sort.*`, `slices.Sort*`, `slices.Reverse`, `copy`) on such an operand, and stores to variables
//     CAPTURED by a closure or declared at package level — each with the mutexes held there (c19HeldAt) and with whether
//     the store is lexically inside a function literal;
//   - `<op>CapturedVarAccesses`: for every variable that has a captured store: each of its occurrences with its place
//     (`before-first-go`, `after-first-go`, `closure#k` — k-th function literal of the declaring function in source order).
//
// A lazily filled memo field, a counter moved out of its goroutine or a result stored without the collector is a new
// row of `…ParallelWrites` with no mutex: the pinning obligations of Props/C19Conc.lean then fail.
//
// Purely syntactic (go/ast + the parser's scope resolution; normal build: files with a `verif` tag are skipped).

import (
	"fmt"
	"go/ast"
	"go/token"
	"sort"
	"strings"
)

type c19Decl struct {
	name string // Recv.name or name
	bare string
	fd   *ast.FuncDecl
}

func c19PkgDecls(pkg string) []c19Decl {
	var out []c19Decl
	for _, rel := range c19NonTestFiles(pkg) {
		f := parse(rel)
		if c19HasVerifTag(f) {
			continue
		}
		for _, d := range f.Decls {
			fd, ok := d.(*ast.FuncDecl)
			if !ok || fd.Body == nil {
				continue
			}
			n := fd.Name.Name
			if fd.Recv != nil && len(fd.Recv.List) == 1 {
				n = c19RecvName(fd.Recv.List[0].Type) + "." + n
			}
			out = append(out, c19Decl{name: n, bare: fd.Name.Name, fd: fd})
		}
	}
	return out
}

// c19IsSpawn: `eg.Go(…)` / `<x>.Go(…)` as a statement, or a `go` statement
func c19IsSpawn(s ast.Stmt) bool {
	switch x := s.(type) {
	case *ast.GoStmt:
		return true
	case *ast.ExprStmt:
		if c, ok := x.X.(*ast.CallExpr); ok {
			if sel, ok := c.Fun.(*ast.SelectorExpr); ok && sel.Sel.Name == "Go" {
				return true
			}
		}
	}
	return false
}

func c19CalledNames(n ast.Node, into map[string]bool) {
	ast.Inspect(n, func(m ast.Node) bool {
		c, ok := m.(*ast.CallExpr)
		if !ok {
			return true
		}
		switch f := c.Fun.(type) {
		case *ast.Ident:
			into[f.Name] = true
		case *ast.SelectorExpr:
			into[f.Sel.Name] = true
		case *ast.IndexExpr: // generic instantiation f[T](…)
			if id, ok := f.X.(*ast.Ident); ok {
				into[id.Name] = true
			}
		}
		return true
	})
}

type c19Write struct {
	fn, lhs, kind string
	held          []string
	inLit         bool
}

type c19VarAcc struct {
	v, fn, kind, place string
}

// c19FieldCall: a method call whose receiver is a struct field (`x.f.m(…)`): the method may mutate the shared field
type c19FieldCall struct {
	fn, call string
	held     []string
}

var c19RegionFieldCalls []c19FieldCall

// c19Region computes the parallel region of entry function `entry` (bare name) of package pkg.
func c19Region(pkg, entry string, callers ...string) (funcs []string, writes []c19Write, capt []c19VarAcc) {
	decls := c19PkgDecls(pkg)
	byBare := map[string][]c19Decl{}
	var ent *c19Decl
	for i, d := range decls {
		byBare[d.bare] = append(byBare[d.bare], d)
		if d.bare == entry && ent == nil {
			ent = &decls[i]
		}
	}
	if ent == nil {
		return []string{"unknown: " + pkg + "." + entry}, nil, nil
	}
	// region statements of the entry: from the first spawn statement at the top level of the body
	first := -1
	for i, s := range ent.fd.Body.List {
		if c19IsSpawn(s) {
			first = i
			break
		}
	}
	if first < 0 {
		return []string{"no spawn statement in " + pkg + "." + entry}, nil, nil
	}
	firstGoPos := ent.fd.Body.List[first].Pos()
	// reachability
	reach := map[string]bool{}
	var order []c19Decl
	work := map[string]bool{}
	for _, s := range ent.fd.Body.List[first:] {
		c19CalledNames(s, work)
	}
	for len(work) > 0 {
		var names []string
		for n := range work {
			names = append(names, n)
		}
		sort.Strings(names)
		work = map[string]bool{}
		for _, n := range names {
			for _, d := range byBare[n] {
				if reach[d.name] || d.fd == ent.fd {
					continue
				}
				reach[d.name] = true
				order = append(order, d)
				c19CalledNames(d.fd.Body, work)
			}
		}
	}
	sort.Slice(order, func(i, j int) bool { return order[i].fd.Pos() < order[j].fd.Pos() })
	funcs = append(funcs, pkg+"."+ent.name+" (from its first spawn statement)")
	for _, d := range order {
		funcs = append(funcs, pkg+"."+d.name)
	}

	scan := func(d c19Decl, from token.Pos, isEntry bool) {
		fd := d.fd
		// function literals in source order
		var lits []*ast.FuncLit
		ast.Inspect(fd.Body, func(n ast.Node) bool {
			if l, ok := n.(*ast.FuncLit); ok {
				lits = append(lits, l)
			}
			return true
		})
		innermost := func(pos token.Pos) (int, ast.Node) {
			idx, node := -1, ast.Node(fd)
			for i, l := range lits {
				if l.Pos() <= pos && pos < l.End() {
					idx, node = i, l // later literals that contain pos are nested deeper
				}
			}
			return idx, node
		}
		// classification of a stored-to identifier
		identKind := func(id *ast.Ident) string {
			if id.Name == "_" {
				return "local"
			}
			if id.Obj == nil {
				return "global" // not resolved in the file: another file of the package
			}
			dn, ok := id.Obj.Decl.(ast.Node)
			if !ok {
				return "local"
			}
			if dn.Pos() < fd.Pos() || dn.Pos() >= fd.End() {
				return "global"
			}
			_, here := innermost(id.Pos())
			if dn.Pos() >= here.Pos() && dn.Pos() < here.End() {
				return "local"
			}
			return "captured"
		}
		captured := map[*ast.Object]bool{}
		add := func(e ast.Expr, how string) {
			if e.Pos() < from {
				return
			}
			for {
				if p, ok := e.(*ast.ParenExpr); ok {
					e = p.X
					continue
				}
				break
			}
			kind := ""
			switch x := e.(type) {
			case *ast.Ident:
				k := identKind(x)
				if k == "local" {
					return
				}
				kind = k
				if k == "captured" && x.Obj != nil {
					captured[x.Obj] = true
				}
			case *ast.SelectorExpr:
				kind = "field"
				// a field of a by-value parameter of the executing function (literal) is that call's own copy
				if id, ok := x.X.(*ast.Ident); ok && id.Obj != nil && identKind(id) == "local" {
					if fld, ok := id.Obj.Decl.(*ast.Field); ok {
						switch fld.Type.(type) {
						case *ast.Ident, *ast.SelectorExpr:
							kind = "field-of-value-param"
						}
					}
				}
			case *ast.IndexExpr:
				kind = "elem"
				if id, ok := x.X.(*ast.Ident); ok && identKind(id) == "local" {
					kind = "elem-of-local"
				}
			case *ast.StarExpr:
				kind = "deref"
			default:
				kind = "other"
			}
			if how != "" {
				kind = how + ":" + kind
			}
			idx, _ := innermost(e.Pos())
			writes = append(writes, c19Write{fn: pkg + "." + d.name, lhs: strings.Join(strings.Fields(src(e)), " "), kind: kind,
				held: c19HeldAt(fd.Body, e.Pos()), inLit: idx >= 0})
		}
		ast.Inspect(fd.Body, func(n ast.Node) bool {
			switch x := n.(type) {
			case *ast.AssignStmt:
				if x.Tok != token.DEFINE {
					for _, l := range x.Lhs {
						add(l, "")
					}
				}
			case *ast.IncDecStmt:
				add(x.X, "")
			case *ast.RangeStmt:
				if x.Tok == token.ASSIGN {
					if x.Key != nil {
						add(x.Key, "")
					}
					if x.Value != nil {
						add(x.Value, "")
					}
				}
			case *ast.UnaryExpr:
				if x.Op == token.AND {
					switch x.X.(type) {
					case *ast.SelectorExpr, *ast.IndexExpr:
						add(x.X, "addr")
					}
				}
			case *ast.CallExpr:
				if sel, ok := x.Fun.(*ast.SelectorExpr); ok && x.Pos() >= from {
					if inner, ok := sel.X.(*ast.SelectorExpr); ok {
						if _, isPkg := inner.X.(*ast.Ident); !isPkg || inner.X.(*ast.Ident).Obj != nil {
							c19RegionFieldCalls = append(c19RegionFieldCalls, c19FieldCall{fn: pkg + "." + d.name,
								call: strings.Join(strings.Fields(src(sel)), " "), held: c19HeldAt(fd.Body, x.Pos())})
						}
					}
				}
				switch f := x.Fun.(type) {
				case *ast.Ident:
					if (f.Name == "delete" || f.Name == "clear" || f.Name == "copy") && len(x.Args) > 0 {
						if id, ok := x.Args[0].(*ast.Ident); !ok || identKind(id) != "local" {
							add(x.Args[0], f.Name)
						}
					}
				case *ast.SelectorExpr:
					if p, ok := f.X.(*ast.Ident); ok && len(x.Args) > 0 {
						mut := p.Name == "sort" || (p.Name == "slices" && (strings.HasPrefix(f.Sel.Name, "Sort") || f.Sel.Name == "Reverse"))
						if mut {
							if id, ok := x.Args[0].(*ast.Ident); !ok || identKind(id) != "local" {
								add(x.Args[0], p.Name+"."+f.Sel.Name)
							}
						}
					}
				}
			}
			return true
		})
		// every occurrence of the captured-and-stored variables
		if len(captured) > 0 {
			stored := map[*ast.Ident]bool{}
			ast.Inspect(fd.Body, func(n ast.Node) bool {
				switch x := n.(type) {
				case *ast.AssignStmt:
					for _, l := range x.Lhs {
						if id, ok := l.(*ast.Ident); ok {
							stored[id] = true
						}
					}
				case *ast.IncDecStmt:
					if id, ok := x.X.(*ast.Ident); ok {
						stored[id] = true
					}
				}
				return true
			})
			ast.Inspect(fd.Body, func(n ast.Node) bool {
				id, ok := n.(*ast.Ident)
				if !ok || id.Obj == nil || !captured[id.Obj] {
					return true
				}
				kind := "read"
				if stored[id] {
					kind = "write"
				}
				place := "body"
				if idx, _ := innermost(id.Pos()); idx >= 0 {
					place = fmt.Sprintf("closure#%d", idx)
				} else if isEntry {
					if id.Pos() < firstGoPos {
						place = "before-first-go"
					} else {
						place = "after-first-go"
					}
				}
				capt = append(capt, c19VarAcc{v: id.Name, fn: pkg + "." + d.name, kind: kind, place: place})
				return true
			})
		}
	}
	scan(*ent, firstGoPos, true)
	for _, d := range order {
		scan(d, d.fd.Pos(), false)
	}
	// the callers that wrap the supplied function into the closure the workers run (whole bodies)
	for _, c := range callers {
		for _, d := range byBare[c] {
			if reach[d.name] {
				continue
			}
			funcs = append(funcs, pkg+"."+d.name+" (caller: its closures are what the workers call)")
			scan(d, d.fd.Pos(), false)
		}
	}
	return funcs, writes, capt
}

func init() {
	extraGenerators = append(extraGenerators, func() (string, string) {
		var b strings.Builder
		b.WriteString(header + "namespace CV.Gen\n\n")
		emit := func(prefix, what, pkg, entry string, callers ...string) {
			c19RegionFieldCalls = nil
			funcs, writes, capt := c19Region(pkg, entry, callers...)
			fmt.Fprintf(&b, "/-- %s: the functions of the parallel region (entry from its first spawn statement + everything reachable by name inside the package) -/\n", what)
			fmt.Fprintf(&b, "def %sParallelFuncs : List String := [\n", prefix)
			for i, f := range funcs {
				if i > 0 {
					b.WriteString(",\n")
				}
				b.WriteString("  " + leanStr(f))
			}
			b.WriteString("]\n\n")
			fmt.Fprintf(&b, "/-- %s: every store of the parallel region that is not a store to a variable local to the executing function (literal):\n    (function, stored-to expression, kind, mutexes held, lexically inside a function literal) -/\n", what)
			fmt.Fprintf(&b, "def %sParallelWrites : List (String × String × String × List String × Bool) := [\n", prefix)
			for i, w := range writes {
				if i > 0 {
					b.WriteString(",\n")
				}
				fmt.Fprintf(&b, "  (%s, %s, %s, [%s], %v)", leanStr(w.fn), leanStr(w.lhs), leanStr(w.kind), joinLean(w.held), w.inLit)
			}
			b.WriteString("]\n\n")
			fmt.Fprintf(&b, "/-- %s: every occurrence of a variable that a closure stores to: (variable, function, read/write, place) -/\n", what)
			fmt.Fprintf(&b, "def %sCapturedVarAccesses : List (String × String × String × String) := [\n", prefix)
			for i, a := range capt {
				if i > 0 {
					b.WriteString(",\n")
				}
				fmt.Fprintf(&b, "  (%s, %s, %s, %s)", leanStr(a.v), leanStr(a.fn), leanStr(a.kind), leanStr(a.place))
			}
			b.WriteString("]\n\n")
			fmt.Fprintf(&b, "/-- %s: every method call of the parallel region whose receiver is a struct field (`x.f.m(…)`; the method may mutate the field): (function, call, mutexes held) -/\n", what)
			fmt.Fprintf(&b, "def %sParallelFieldMethodCalls : List (String × String × List String) := [\n", prefix)
			for i, c := range c19RegionFieldCalls {
				if i > 0 {
					b.WriteString(",\n")
				}
				fmt.Fprintf(&b, "  (%s, %s, [%s])", leanStr(c.fn), leanStr(c.call), joinLean(c.held))
			}
			b.WriteString("]\n\n")
			fmt.Fprintf(logw, "parallel region %s.%s: %d functions, %d stores, %d captured-variable occurrences\n", pkg, entry, len(funcs), len(writes), len(capt))
		}
		emit("trav", "graph/traversal.go `walk`", "graph", "walk", "InDependencyOrder", "CollectInDependencyOrder")
		emit("fanout", "types/project.go `WithServicesTransform`", "types", "WithServicesTransform", "WithImagesResolved")
		// the option fields the workers READ (t.after in skip, t.inverse in ready / adjacentNodes, t.maxConcurrency in walk):
		// every access in package graph, and the position of the option loop relative to the call of walk
		optFields := c19StructFields("graph/traversal.go", "Options")
		isOpt := map[string]bool{}
		for _, f := range optFields {
			isOpt[f] = true
		}
		optAcc := c19Accesses("graph", func(e ast.Expr) (string, bool) {
			sel, ok := e.(*ast.SelectorExpr)
			if !ok || !isOpt[sel.Sel.Name] {
				return "", false
			}
			return src(sel.X) + "." + sel.Sel.Name, true
		})
		fmt.Fprintf(&b, "/-- graph/traversal.go: the fields of `Options` -/\ndef travOptionFields : List String := [%s]\n\n", joinLean(optFields))
		b.WriteString("/-- every access of a field of `Options` in package graph: (expression, function, read/write, mutexes held) -/\n")
		b.WriteString("def travOptionFieldAccesses : List (String × String × String × List String) := [\n")
		for i, a := range optAcc {
			if i > 0 {
				b.WriteString(",\n")
			}
			fmt.Fprintf(&b, "  (%s, %s, %s, [%s])", leanStr(a.name), leanStr(a.fn), leanStr(a.kind), joinLean(a.held))
		}
		b.WriteString("]\n\n")
		fmt.Fprintf(&b, "/-- in `CollectInDependencyOrder` the loop that applies the options is a top-level statement before the one that calls `walk` -/\ndef travOptionsAppliedBeforeWalk : Bool := %v\n\n", c19OptionsBeforeWalk())
		// the dependency graph the workers read: every store to a field of `vertex` / `graph` in package graph
		gFields := append(c19StructFields("graph/graph.go", "vertex"), c19StructFields("graph/graph.go", "graph")...)
		isG := map[string]bool{}
		for _, f := range gFields {
			isG[f] = true
		}
		gAcc := c19Accesses("graph", func(e ast.Expr) (string, bool) {
			sel, ok := e.(*ast.SelectorExpr)
			if !ok || !isG[sel.Sel.Name] {
				return "", false
			}
			return strings.Join(strings.Fields(src(sel.X)), " ") + "." + sel.Sel.Name, true
		})
		fmt.Fprintf(&b, "/-- graph/graph.go: the fields of `vertex` and `graph` -/\ndef graphStructFields : List String := [%s]\n\n", joinLean(gFields))
		b.WriteString("/-- every STORE to a field of `vertex` / `graph` (or to an element of such a map) in package graph: (expression, function) -/\n")
		b.WriteString("def graphStructFieldWrites : List (String × String) := [\n")
		first := true
		for _, a := range gAcc {
			if a.kind != "write" {
				continue
			}
			if !first {
				b.WriteString(",\n")
			}
			first = false
			fmt.Fprintf(&b, "  (%s, %s)", leanStr(a.name), leanStr(a.fn))
		}
		b.WriteString("]\n\n")
		fmt.Fprintf(&b, "/-- in `CollectInDependencyOrder` the statement that calls `newGraph` precedes the one that calls `walk` -/\ndef graphBuiltBeforeWalk : Bool := %v\n\n", c19CallBefore("graph/services.go", "CollectInDependencyOrder", "newGraph", "walk"))
		b.WriteString("end CV.Gen\n")
		return "ConcWrites.lean", b.String()
	})
}

// c19StructFields: the field names of struct type `name` declared in file rel (embedded fields by their type name).
func c19StructFields(rel, name string) []string {
	var out []string
	f := parse(rel)
	ast.Inspect(f, func(n ast.Node) bool {
		ts, ok := n.(*ast.TypeSpec)
		if !ok || ts.Name.Name != name {
			return true
		}
		if st, ok := ts.Type.(*ast.StructType); ok {
			for _, fl := range st.Fields.List {
				if len(fl.Names) == 0 {
					out = append(out, c19RecvName(fl.Type))
				}
				for _, id := range fl.Names {
					out = append(out, id.Name)
				}
			}
		}
		return false
	})
	return out
}

// c19OptionsBeforeWalk: in CollectInDependencyOrder a top-level `for … range options { option(t.Options) }` precedes the
// top-level statement that calls walk, and no statement from the call of walk on mentions `options` / `option`.
func c19OptionsBeforeWalk() bool {
	fd := findFunc(parse("graph/services.go"), "CollectInDependencyOrder")
	if fd == nil || fd.Body == nil {
		return false
	}
	loopAt, walkAt, late := -1, -1, false
	for i, s := range fd.Body.List {
		if rs, ok := s.(*ast.RangeStmt); ok && src(rs.X) == "options" && loopAt < 0 {
			loopAt = i
		}
		ast.Inspect(s, func(n ast.Node) bool {
			if c, ok := n.(*ast.CallExpr); ok {
				if id, ok := c.Fun.(*ast.Ident); ok && id.Name == "walk" && walkAt < 0 {
					walkAt = i
				}
			}
			if id, ok := n.(*ast.Ident); ok && walkAt >= 0 && i >= walkAt && (id.Name == "options" || id.Name == "option") {
				late = true
			}
			return true
		})
	}
	return loopAt >= 0 && walkAt > loopAt && !late
}

// c19CallBefore: in function fn of file rel, the first top-level statement calling `a` precedes the first one calling `b`.
func c19CallBefore(rel, fn, a, b string) bool {
	fd := findFunc(parse(rel), fn)
	if fd == nil || fd.Body == nil {
		return false
	}
	at := map[string]int{a: -1, b: -1}
	for i, s := range fd.Body.List {
		ast.Inspect(s, func(n ast.Node) bool {
			if c, ok := n.(*ast.CallExpr); ok {
				if id, ok := c.Fun.(*ast.Ident); ok {
					if v, known := at[id.Name]; known && v < 0 {
						at[id.Name] = i
					}
				}
			}
			return true
		})
	}
	return at[a] >= 0 && at[b] > at[a]
}
