package main

// Facts for C07 (Gen/C07Funcs.lean): the statement skeleton of every function of template/template.go that
// Model/Template.lean and Model/TemplateOpts.lean model by hand.  Each function is rendered as its signature
// followed by the go/printer text of its top-level statements, white space squashed, comments dropped.
// Props/C07Source.lean holds the matching `rfl` obligation: an edit of any of these functions breaks it.

import (
	"fmt"
	"go/ast"
	"go/parser"
	"os"
	"path/filepath"
	"strings"
)

// c07ParseNoComments parses a source file without its comments (an edited comment is not an edited function).
func c07ParseNoComments(rel string) *ast.File {
	f, err := parser.ParseFile(fset, filepath.Join(repo, rel), nil, 0)
	if err != nil {
		fmt.Fprintf(os.Stderr, "translator: %v\n", err)
		os.Exit(1)
	}
	return f
}

func init() { extraGenerators = append(extraGenerators, genC07Funcs) }

var c07ModelledFuncs = []string{
	"SubstituteWithOptions", "DefaultReplacementFunc", "DefaultReplacementAppliedFunc", "SubstituteWith",
	"getSubstitutionFunctionForTemplate", "Substitute",
	"defaultWhenEmptyOrUnset", "defaultWhenUnset", "defaultWhenNotEmpty", "defaultWhenSet",
	"requiredErrorWhenEmptyOrUnset", "requiredErrorWhenUnset",
	"withDefaultWhenPresence", "withDefaultWhenAbsence", "withRequired", "matchGroups", "partition",
}

func genC07Funcs() (string, string) {
	var b strings.Builder
	b.WriteString(header + "namespace CV.Gen\n\n")
	f := c07ParseNoComments("template/template.go")
	for _, name := range c07ModelledFuncs {
		sig, body := "unknown", "[]"
		if fd := findFunc(f, name); fd != nil {
			sig = c07Squash(src(fd.Type))
			body = c07Stmts(fd.Body.List)
		}
		b.WriteString("/-- template." + name + ": signature, then its statements -/\n")
		b.WriteString("def c07_fn_" + name + " : String × List String :=\n  (" + leanStr(sig) + ",\n  " + body + ")\n\n")
	}
	b.WriteString("end CV.Gen\n")
	return "C07Funcs.lean", b.String()
}
