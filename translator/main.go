// Command translator regenerates lean/ComposeVerif/Gen/*.lean from the compose-go source tree.
//
// It is deliberately small and purely syntactic (go/ast): the rule tables keyed by tree.Path,
// the constants the models depend on, and a few structural facts.  Anything it does not
// recognise is emitted as an `unknown:` row, which no theorem accepts (DESIGN.md §3.1).
package main

import (
	"bytes"
	"flag"
	"fmt"
	"go/ast"
	"go/parser"
	"go/printer"
	"go/token"
	"os"
	"path/filepath"
	"sort"
	"strconv"
	"strings"
)

var repo string
var fset = token.NewFileSet()
var logw = os.Stdout

func parse(rel string) *ast.File {
	f, err := parser.ParseFile(fset, filepath.Join(repo, rel), nil, parser.ParseComments)
	if err != nil {
		fmt.Fprintf(os.Stderr, "translator: %v\n", err)
		os.Exit(1)
	}
	return f
}

func src(n ast.Node) string {
	var b bytes.Buffer
	printer.Fprint(&b, fset, n)
	return b.String()
}

func leanStr(s string) string {
	var b strings.Builder
	b.WriteByte('"')
	for _, r := range s {
		switch {
		case r == '"':
			b.WriteString("\\\"")
		case r == '\\':
			b.WriteString("\\\\")
		case r == '\n':
			b.WriteString("\\n")
		case r == '\t':
			b.WriteString("\\t")
		case r == '\r':
			b.WriteString("\\r")
		case r < 0x20 || r == 0x7f:
			fmt.Fprintf(&b, "\\x%02x", r)
		default:
			b.WriteRune(r)
		}
	}
	b.WriteByte('"')
	return b.String()
}

type row struct{ key, handler string }

// pathKey evaluates a table key: a string literal, or servicePath/iPath/tree.NewPath of literals and PathMatch* constants.
func pathKey(e ast.Expr) string {
	switch v := e.(type) {
	case *ast.BasicLit:
		if v.Kind == token.STRING {
			s, err := strconv.Unquote(v.Value)
			if err == nil {
				return s
			}
		}
	case *ast.CallExpr:
		name := src(v.Fun)
		var parts []string
		switch name {
		case "servicePath":
			parts = []string{"services", "*"}
		case "iPath", "tree.NewPath", "NewPath":
		default:
			return "unknown:" + src(e)
		}
		for _, a := range v.Args {
			switch av := a.(type) {
			case *ast.BasicLit:
				s, err := strconv.Unquote(av.Value)
				if err != nil {
					return "unknown:" + src(e)
				}
				parts = append(parts, s)
			default:
				switch src(a) {
				case "tree.PathMatchAll", "PathMatchAll":
					parts = append(parts, "*")
				case "tree.PathMatchList", "PathMatchList":
					parts = append(parts, "[]")
				default:
					return "unknown:" + src(e)
				}
			}
		}
		return strings.Join(parts, ".")
	}
	return "unknown:" + src(e)
}

// handlerName: identifier, selector (r.absPath → absPath) or constructor call with literal arguments (kept as source text).
func handlerName(e ast.Expr) string {
	switch v := e.(type) {
	case *ast.Ident:
		return v.Name
	case *ast.SelectorExpr:
		return v.Sel.Name
	case *ast.CallExpr:
		for _, a := range v.Args {
			if _, ok := a.(*ast.BasicLit); !ok {
				return "unknown:" + src(e)
			}
		}
		return strings.ReplaceAll(src(e), " ", "")
	}
	return "unknown:" + src(e)
}

// tableRows finds every `name[key] = handler` assignment and every composite literal assigned to / declared as `name`.
func tableRows(f *ast.File, name string) []row {
	var rows []row
	fromLit := func(cl *ast.CompositeLit) {
		for _, el := range cl.Elts {
			if kv, ok := el.(*ast.KeyValueExpr); ok {
				rows = append(rows, row{pathKey(kv.Key), handlerName(kv.Value)})
			}
		}
	}
	ast.Inspect(f, func(n ast.Node) bool {
		switch v := n.(type) {
		case *ast.ValueSpec:
			for i, id := range v.Names {
				if id.Name == name && i < len(v.Values) {
					if cl, ok := v.Values[i].(*ast.CompositeLit); ok {
						fromLit(cl)
					}
				}
			}
		case *ast.AssignStmt:
			for i, lhs := range v.Lhs {
				if i >= len(v.Rhs) {
					break
				}
				if ix, ok := lhs.(*ast.IndexExpr); ok && src(ix.X) == name {
					rows = append(rows, row{pathKey(ix.Index), handlerName(v.Rhs[i])})
				} else if (src(lhs) == name || strings.HasSuffix(src(lhs), "."+name)) {
					if cl, ok := v.Rhs[i].(*ast.CompositeLit); ok {
						fromLit(cl)
					}
				}
			}
		}
		return true
	})
	return rows
}

// effective applies Go map semantics: a key assigned twice keeps the last handler.
func effective(rows []row) []row {
	last := map[string]int{}
	for i, r := range rows {
		last[r.key] = i
	}
	var out []row
	for i, r := range rows {
		if last[r.key] == i {
			out = append(out, r)
		}
	}
	return out
}

func emitTable(b *strings.Builder, name, doc string, rows []row) {
	fmt.Fprintf(b, "/-- %s; a pattern is the list of its dot-separated parts -/\ndef %s : List (List String × String) := [", doc, name)
	for i, r := range rows {
		if i > 0 {
			b.WriteString(",")
		}
		fmt.Fprintf(b, "\n  ([%s], %s)", joinLean(strings.Split(r.key, ".")), leanStr(r.handler))
	}
	b.WriteString("]\n\n")
	fmt.Fprintf(logw, "table %s: %d rows\n", name, len(rows))
}

// stringVar returns the value of a package-level `var name = "literal"`.
func stringVar(f *ast.File, name string) string {
	res := "unknown:" + name
	ast.Inspect(f, func(n ast.Node) bool {
		if vs, ok := n.(*ast.ValueSpec); ok {
			for i, id := range vs.Names {
				if id.Name == name && i < len(vs.Values) {
					if bl, ok := vs.Values[i].(*ast.BasicLit); ok && bl.Kind == token.STRING {
						if s, err := strconv.Unquote(bl.Value); err == nil {
							res = s
						}
					}
				}
			}
		}
		return true
	})
	return res
}

func writeIfChanged(path, content string) {
	old, err := os.ReadFile(path)
	if err == nil && string(old) == content {
		return
	}
	if err := os.WriteFile(path, []byte(content), 0o644); err != nil {
		fmt.Fprintf(os.Stderr, "translator: %v\n", err)
		os.Exit(1)
	}
	fmt.Fprintf(logw, "rewrote %s\n", filepath.Base(path))
}

const header = "/-! GENERATED by /verif/translator from the compose-go source tree — do not edit. -/\n"

func genTables() string {
	var b strings.Builder
	b.WriteString(header + "namespace CV.Gen\n\n")
	type tdef struct{ file, goName, leanName, doc string }
	for _, t := range []tdef{
		{"override/merge.go", "mergeSpecials", "mergeSpecials", "override/merge.go: special merge rules"},
		{"override/uncity.go", "unique", "unique", "override/uncity.go: unicity indexers (effective map: last assignment wins)"},
		{"transform/canonical.go", "transformers", "transformers", "transform/canonical.go: canonicalisation rules"},
		{"transform/defaults.go", "defaultValues", "defaultValues", "transform/defaults.go: default value rules"},
		{"paths/resolve.go", "resolvers", "resolvers", "paths/resolve.go: path resolvers"},
		{"validation/validation.go", "checks", "validationChecks", "validation/validation.go: structural checks"},
		{"loader/interpolate.go", "interpolateTypeCastMapping", "castTable", "loader/interpolate.go: interpolation type casts"},
	} {
		rows := tableRows(parse(t.file), t.goName)
		emitTable(&b, t.leanName+"Assignments", t.doc+" (assignments in source order)", rows)
		emitTable(&b, t.leanName, t.doc, effective(rows))
	}
	b.WriteString("end CV.Gen\n")
	return b.String()
}

// opTable extracts the (separator, function) pairs of getSubstitutionFunctionForTemplate in source order.
func opTable(f *ast.File) []row {
	var rows []row
	ast.Inspect(f, func(n ast.Node) bool {
		fd, ok := n.(*ast.FuncDecl)
		if !ok || fd.Name.Name != "getSubstitutionFunctionForTemplate" {
			return true
		}
		ast.Inspect(fd, func(m ast.Node) bool {
			cl, ok := m.(*ast.CompositeLit)
			if !ok {
				return true
			}
			if _, isArr := cl.Type.(*ast.ArrayType); !isArr {
				return true
			}
			for _, el := range cl.Elts {
				if inner, ok := el.(*ast.CompositeLit); ok && len(inner.Elts) == 2 {
					if bl, ok := inner.Elts[0].(*ast.BasicLit); ok {
						s, _ := strconv.Unquote(bl.Value)
						rows = append(rows, row{s, src(inner.Elts[1])})
					}
				}
			}
			return false
		})
		return false
	})
	return rows
}

// funcBodyHash gives a stable fingerprint of a function's source (comments excluded) — used to flag that a
// hand-modelled function changed textually (informational; the differential tie decides).
func funcSrc(f *ast.File, name string) string {
	res := ""
	for _, d := range f.Decls {
		if fd, ok := d.(*ast.FuncDecl); ok && fd.Name.Name == name {
			res = src(fd)
		}
	}
	return res
}

func genConsts() string {
	var b strings.Builder
	b.WriteString(header + "namespace CV.Gen\n\n")
	tf := parse("template/template.go")
	for _, v := range []string{"delimiter", "substitutionNamed", "substitutionBraced", "groupEscaped", "groupNamed", "groupBraced", "groupInvalid"} {
		fmt.Fprintf(&b, "def template_%s : String := %s\n", v, leanStr(stringVar(tf, v)))
	}
	// the Sprintf format of patternString
	format := "unknown"
	ast.Inspect(tf, func(n ast.Node) bool {
		if vs, ok := n.(*ast.ValueSpec); ok && len(vs.Names) == 1 && vs.Names[0].Name == "patternString" && len(vs.Values) == 1 {
			if call, ok := vs.Values[0].(*ast.CallExpr); ok && src(call.Fun) == "fmt.Sprintf" && len(call.Args) > 0 {
				if bl, ok := call.Args[0].(*ast.BasicLit); ok {
					format, _ = strconv.Unquote(bl.Value)
				}
				var args []string
				for _, a := range call.Args[1:] {
					args = append(args, src(a))
				}
				fmt.Fprintf(&b, "def template_patternArgs : List String := [%s]\n", joinLean(args))
			}
		}
		return true
	})
	fmt.Fprintf(&b, "def template_patternFormat : String := %s\n", leanStr(format))
	ops := opTable(tf)
	b.WriteString("/-- getSubstitutionFunctionForTemplate: (separator, function) in source order -/\ndef template_opTable : List (String × String) := [")
	for i, r := range ops {
		if i > 0 {
			b.WriteString(", ")
		}
		fmt.Fprintf(&b, "(%s, %s)", leanStr(r.key), leanStr(r.handler))
	}
	b.WriteString("]\n\n")
	fmt.Fprintf(logw, "template consts: opTable %d rows\n", len(ops))
	b.WriteString("end CV.Gen\n")
	return b.String()
}

func joinLean(l []string) string {
	var q []string
	for _, s := range l {
		q = append(q, leanStr(s))
	}
	return strings.Join(q, ", ")
}

func main() {
	out := flag.String("out", "", "output directory (lean/ComposeVerif/Gen)")
	flag.StringVar(&repo, "repo", "/repo", "compose-go tree")
	flag.Parse()
	if *out == "" {
		fmt.Fprintln(os.Stderr, "translator: -out required")
		os.Exit(2)
	}
	os.MkdirAll(*out, 0o755)
	files := map[string]string{
		"Tables.lean": genTables(),
		"Consts.lean": genConsts(),
	}
	for _, g := range extraGenerators {
		name, content := g()
		files[name] = content
	}
	// stale generated files are removed so that a deleted generator cannot leave an old fact behind
	ents, _ := os.ReadDir(*out)
	for _, e := range ents {
		if _, keep := files[e.Name()]; !keep && strings.HasSuffix(e.Name(), ".lean") {
			os.Remove(filepath.Join(*out, e.Name()))
			fmt.Fprintf(logw, "removed stale %s\n", e.Name())
		}
	}
	var names []string
	for n := range files {
		names = append(names, n)
	}
	sort.Strings(names)
	for _, n := range names {
		writeIfChanged(filepath.Join(*out, n), files[n])
	}
}

// extraGenerators lets other files of this package add Gen modules (each returns file name and content).
var extraGenerators []func() (string, string)

// findFunc returns the declaration of the top-level function (or method) `name` in f, or nil.
// Shared helper: several per-property generators need it.
func findFunc(f *ast.File, name string) *ast.FuncDecl {
	for _, d := range f.Decls {
		if fd, ok := d.(*ast.FuncDecl); ok && fd.Name.Name == name {
			return fd
		}
	}
	return nil
}
