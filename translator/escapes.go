package main

// escapes.go — C14: static facts about the Project derivations of types/project.go → Gen/Derivations.lean.
//
// For every method of Project (value or pointer receiver) that takes `recv.deepCopy()`:
//
//   receiverEscapes  a value that may hold a map, slice or pointer, read from an expression rooted at the
//                    receiver (or at a local bound to such a value) and then *stored* (assignment, map store,
//                    returned, passed to a call) — instead of going through the copy;
//   receiverWrites   a store / delete / ++ through an lvalue rooted at the receiver.
//
// And for every method of Project that returns *Project: how it obtains its result (`copy` = a local
// initialised by `recv.deepCopy()`, `delegate` = returns the result of another derivation) and what its return
// statements return.  Finally the argument ForEachService's worker hands to the visitor.
//
// Intra-procedural, syntactic + the struct field types of package types (no go/types).  Conservative where it
// matters: an expression whose type it cannot work out counts as reference-bearing.

import (
	"fmt"
	"go/ast"
	"go/token"
	"sort"
	"strings"
)

func init() { extraGenerators = append(extraGenerators, genDerivations) }

type escAnalysis struct {
	g       *cpGen
	method  string
	recv    string
	env     map[string]ast.Expr // local → static type (nil = unknown)
	tainted map[string]bool
	escapes []string
	writes  []string
}

var flatIdents = map[string]bool{"error": true}

// resolve follows named types of package types to their definition.
func (a *escAnalysis) resolve(t ast.Expr) ast.Expr {
	for i := 0; i < 20; i++ {
		switch v := t.(type) {
		case *ast.Ident:
			d, ok := a.g.typeDecls[v.Name]
			if !ok {
				return t
			}
			t = d
		case *ast.ParenExpr:
			t = v.X
		default:
			return t
		}
	}
	return t
}

// refBearing: may a value of this type hold a map, slice, pointer, interface or func?
func (a *escAnalysis) refBearing(t ast.Expr, depth int) bool {
	if t == nil || depth > 20 {
		return true
	}
	switch v := a.resolve(t).(type) {
	case *ast.Ident:
		return !(scalarIdents[v.Name] || flatIdents[v.Name])
	case *ast.SelectorExpr:
		return !scalarSelectors[src(v)]
	case *ast.StructType:
		for _, f := range v.Fields.List {
			if a.refBearing(f.Type, depth+1) {
				return true
			}
		}
		return false
	}
	return true
}

func (a *escAnalysis) fieldType(t ast.Expr, name string) ast.Expr {
	t = a.resolve(t)
	if st, ok := t.(*ast.StarExpr); ok {
		t = a.resolve(st.X)
	}
	if s, ok := t.(*ast.StructType); ok {
		for _, f := range s.Fields.List {
			for _, n := range f.Names {
				if n.Name == name {
					return f.Type
				}
			}
		}
	}
	return nil
}

func namedOf(t ast.Expr) string {
	if st, ok := t.(*ast.StarExpr); ok {
		t = st.X
	}
	if id, ok := t.(*ast.Ident); ok {
		return id.Name
	}
	return ""
}

// typeOf: static type of an expression (nil = unknown).
func (a *escAnalysis) typeOf(e ast.Expr) ast.Expr {
	switch v := e.(type) {
	case *ast.Ident:
		if v.Name == "nil" || v.Name == "true" || v.Name == "false" {
			return ast.NewIdent("bool")
		}
		return a.env[v.Name]
	case *ast.BasicLit:
		return ast.NewIdent("string")
	case *ast.ParenExpr:
		return a.typeOf(v.X)
	case *ast.SelectorExpr:
		if t := a.typeOf(v.X); t != nil {
			return a.fieldType(t, v.Sel.Name)
		}
	case *ast.IndexExpr:
		switch t := a.resolve(a.typeOf(v.X)).(type) {
		case *ast.MapType:
			return t.Value
		case *ast.ArrayType:
			return t.Elt
		}
	case *ast.StarExpr:
		if st, ok := a.resolve(a.typeOf(v.X)).(*ast.StarExpr); ok {
			return st.X
		}
	case *ast.UnaryExpr:
		if v.Op == token.AND {
			if t := a.typeOf(v.X); t != nil {
				return &ast.StarExpr{X: t}
			}
		}
		return ast.NewIdent("bool")
	case *ast.BinaryExpr:
		return ast.NewIdent("bool")
	case *ast.CompositeLit:
		return v.Type
	case *ast.CallExpr:
		if id, ok := v.Fun.(*ast.Ident); ok {
			switch id.Name {
			case "len", "cap":
				return ast.NewIdent("int")
			case "append":
				if len(v.Args) > 0 {
					return a.typeOf(v.Args[0])
				}
			case "make":
				return v.Args[0]
			case "new":
				return &ast.StarExpr{X: v.Args[0]}
			}
			if fd, ok := a.g.funcs[id.Name]; ok && fd.Type.Results != nil && len(fd.Type.Results.List) > 0 {
				return fd.Type.Results.List[0].Type
			}
		}
		if sel, ok := v.Fun.(*ast.SelectorExpr); ok {
			if t := a.typeOf(sel.X); t != nil {
				if fd, ok := a.g.methods[namedOf(t)+"."+sel.Sel.Name]; ok && fd.Type.Results != nil && len(fd.Type.Results.List) > 0 {
					return fd.Type.Results.List[0].Type
				}
			}
		}
	}
	return nil
}

// root: the identifier an lvalue / rvalue path starts from ("" when it is not a path)
func root(e ast.Expr) string {
	for {
		switch v := e.(type) {
		case *ast.Ident:
			return v.Name
		case *ast.SelectorExpr:
			e = v.X
		case *ast.IndexExpr:
			e = v.X
		case *ast.StarExpr:
			e = v.X
		case *ast.ParenExpr:
			e = v.X
		case *ast.SliceExpr:
			e = v.X
		case *ast.UnaryExpr:
			if v.Op != token.AND {
				return ""
			}
			e = v.X
		default:
			return ""
		}
	}
}

func (a *escAnalysis) isDerivation(recvType, m string) bool {
	fd, ok := a.g.methods[recvType+"."+m]
	if !ok || fd.Type.Results == nil || len(fd.Type.Results.List) == 0 {
		return false
	}
	return norm(src(fd.Type.Results.List[0].Type)) == "*Project"
}

// taintedVal: does evaluating e yield a value that may carry references into the receiver's memory?
func (a *escAnalysis) taintedVal(e ast.Expr) bool {
	switch v := e.(type) {
	case *ast.ParenExpr:
		return a.taintedVal(v.X)
	case *ast.CallExpr:
		if id, ok := v.Fun.(*ast.Ident); ok {
			switch id.Name {
			case "len", "cap", "make", "new":
				return false
			case "append":
				for i, arg := range v.Args {
					if i == len(v.Args)-1 && v.Ellipsis.IsValid() && i > 0 {
						// spread: the elements are what is stored
						if at, ok := a.resolve(a.typeOf(arg)).(*ast.ArrayType); ok && !a.refBearing(at.Elt, 0) {
							continue
						}
					}
					if a.taintedVal(arg) {
						return true
					}
				}
				return false
			}
		}
		if sel, ok := v.Fun.(*ast.SelectorExpr); ok {
			r := root(sel.X)
			if r == a.recv || a.tainted[r] {
				if sel.Sel.Name == "deepCopy" {
					return false
				}
				t := a.typeOf(sel.X)
				if a.isDerivation(namedOf(t), sel.Sel.Name) {
					return false // the callee is a derivation: analysed on its own
				}
				return a.refBearing(a.typeOf(e), 0)
			}
		}
		return false
	case *ast.CompositeLit:
		for _, el := range v.Elts {
			if kv, ok := el.(*ast.KeyValueExpr); ok {
				el = kv.Value
			}
			if a.taintedVal(el) {
				return true
			}
		}
		return false
	case *ast.FuncLit, *ast.BasicLit, *ast.BinaryExpr:
		return false
	}
	r := root(e)
	if r == "" || !(r == a.recv || a.tainted[r]) {
		return false
	}
	return a.refBearing(a.typeOf(e), 0)
}

func (a *escAnalysis) note(list *[]string, kind string, n ast.Node) {
	s := norm(src(n))
	if len(s) > 100 {
		s = s[:100] + "…"
	}
	*list = append(*list, a.method+": "+kind+": "+s)
}

func (a *escAnalysis) bind(name string, t ast.Expr, tainted bool) {
	if name == "_" {
		return
	}
	a.env[name] = t
	if tainted {
		a.tainted[name] = true
	} else {
		delete(a.tainted, name) // a fresh binding of the name
	}
}

func (a *escAnalysis) stmt(s ast.Stmt) {
	switch v := s.(type) {
	case nil:
	case *ast.BlockStmt:
		for _, x := range v.List {
			a.stmt(x)
		}
	case *ast.AssignStmt:
		for _, r := range v.Rhs {
			a.expr(r)
		}
		if v.Tok == token.DEFINE {
			for i, l := range v.Lhs {
				id, ok := l.(*ast.Ident)
				if !ok {
					continue
				}
				if len(v.Rhs) == len(v.Lhs) {
					a.bind(id.Name, a.typeOf(v.Rhs[i]), a.taintedVal(v.Rhs[i]))
				} else if i == 0 && len(v.Rhs) == 1 {
					// v, ok := m[k]  /  x, err := f()
					a.bind(id.Name, a.typeOf(v.Rhs[0]), a.taintedVal(v.Rhs[0]))
				} else {
					a.bind(id.Name, ast.NewIdent("error"), false)
				}
			}
			return
		}
		for i, l := range v.Lhs {
			r := root(l)
			if _, isIdent := l.(*ast.Ident); !isIdent && (r == a.recv || a.tainted[r]) {
				a.note(&a.writes, "store through the receiver", s)
			}
			if id, isIdent := l.(*ast.Ident); isIdent && id.Name == a.recv {
				continue // rebinding the receiver variable itself
			}
			if i < len(v.Rhs) && a.taintedVal(v.Rhs[i]) {
				a.note(&a.escapes, "receiver value stored", s)
			}
		}
	case *ast.IncDecStmt:
		r := root(v.X)
		if _, isIdent := v.X.(*ast.Ident); !isIdent && (r == a.recv || a.tainted[r]) {
			a.note(&a.writes, "store through the receiver", s)
		}
	case *ast.ExprStmt:
		a.expr(v.X)
	case *ast.DeclStmt:
		if gd, ok := v.Decl.(*ast.GenDecl); ok {
			for _, sp := range gd.Specs {
				if vs, ok := sp.(*ast.ValueSpec); ok {
					for i, n := range vs.Names {
						var t ast.Expr = vs.Type
						taint := false
						if i < len(vs.Values) {
							a.expr(vs.Values[i])
							if t == nil {
								t = a.typeOf(vs.Values[i])
							}
							taint = a.taintedVal(vs.Values[i])
						}
						a.bind(n.Name, t, taint)
					}
				}
			}
		}
	case *ast.ReturnStmt:
		for _, r := range v.Results {
			a.expr(r)
			if a.taintedVal(r) {
				a.note(&a.escapes, "receiver value returned", s)
			}
		}
	case *ast.IfStmt:
		a.stmt(v.Init)
		a.expr(v.Cond)
		a.stmt(v.Body)
		a.stmt(v.Else)
	case *ast.ForStmt:
		a.stmt(v.Init)
		a.stmt(v.Body)
		a.stmt(v.Post)
	case *ast.RangeStmt:
		a.expr(v.X)
		t := a.resolve(a.typeOf(v.X))
		taint := false
		r := root(v.X)
		if r == a.recv || a.tainted[r] || a.taintedVal(v.X) {
			taint = true
		}
		var kt, vt ast.Expr
		switch c := t.(type) {
		case *ast.MapType:
			kt, vt = c.Key, c.Value
		case *ast.ArrayType:
			kt, vt = ast.NewIdent("int"), c.Elt
		}
		if id, ok := v.Key.(*ast.Ident); ok && v.Tok == token.DEFINE {
			a.bind(id.Name, kt, taint && a.refBearing(kt, 0))
		}
		if id, ok := v.Value.(*ast.Ident); ok && v.Tok == token.DEFINE {
			a.bind(id.Name, vt, taint && a.refBearing(vt, 0))
		}
		a.stmt(v.Body)
	case *ast.SwitchStmt:
		a.stmt(v.Init)
		a.stmt(v.Body)
	case *ast.TypeSwitchStmt:
		a.stmt(v.Body)
	case *ast.CaseClause:
		for _, x := range v.Body {
			a.stmt(x)
		}
	case *ast.SelectStmt:
		a.stmt(v.Body)
	case *ast.CommClause:
		a.stmt(v.Comm)
		for _, x := range v.Body {
			a.stmt(x)
		}
	case *ast.SendStmt:
		a.expr(v.Value)
		if a.taintedVal(v.Value) {
			a.note(&a.escapes, "receiver value sent", s)
		}
	case *ast.GoStmt:
		a.expr(v.Call)
	case *ast.DeferStmt:
		a.expr(v.Call)
	case *ast.LabeledStmt:
		a.stmt(v.Stmt)
	}
}

// expr: calls inside expressions (arguments handed to other code, delete, closures)
func (a *escAnalysis) expr(e ast.Expr) {
	ast.Inspect(e, func(n ast.Node) bool {
		switch v := n.(type) {
		case *ast.FuncLit:
			for _, p := range v.Type.Params.List {
				for _, nm := range p.Names {
					a.env[nm.Name] = p.Type
					delete(a.tainted, nm.Name)
				}
			}
			a.stmt(v.Body)
			return false
		case *ast.CallExpr:
			if id, ok := v.Fun.(*ast.Ident); ok {
				switch id.Name {
				case "len", "cap", "append", "make", "new", "copy", "panic", "print", "println":
					return true
				case "delete":
					if len(v.Args) > 0 {
						r := root(v.Args[0])
						if r == a.recv || a.tainted[r] {
							a.note(&a.writes, "delete through the receiver", v)
						}
					}
					return true
				}
			}
			if sel, ok := v.Fun.(*ast.SelectorExpr); ok {
				r := root(sel.X)
				if (r == a.recv || a.tainted[r]) && sel.Sel.Name != "deepCopy" {
					// a method invoked on receiver state: fine when it is a derivation or a read-only accessor; recorded otherwise
					t := a.typeOf(sel.X)
					if fd, ok := a.g.methods[namedOf(t)+"."+sel.Sel.Name]; ok && !a.isDerivation(namedOf(t), sel.Sel.Name) {
						if !readOnlyMethod(fd) {
							a.note(&a.writes, "mutating method on the receiver", v)
						}
					}
				}
			}
			for _, arg := range v.Args {
				if a.taintedVal(arg) {
					a.note(&a.escapes, "receiver value passed to a call", v)
				}
			}
		}
		return true
	})
}

// readOnlyMethod: the method body contains no assignment through its receiver, no delete on it, and no call of a
// method on its receiver's fields that is not itself read-only (one level; unknown callees count as read-only only
// when they are methods of package types that pass the same test).
func readOnlyMethod(fd *ast.FuncDecl) bool {
	if fd.Body == nil || len(fd.Recv.List[0].Names) == 0 {
		return true
	}
	rv := fd.Recv.List[0].Names[0].Name
	ok := true
	ast.Inspect(fd.Body, func(n ast.Node) bool {
		switch v := n.(type) {
		case *ast.AssignStmt:
			if v.Tok != token.DEFINE {
				for _, l := range v.Lhs {
					if _, isIdent := l.(*ast.Ident); !isIdent && root(l) == rv {
						ok = false
					}
				}
			}
		case *ast.IncDecStmt:
			if _, isIdent := v.X.(*ast.Ident); !isIdent && root(v.X) == rv {
				ok = false
			}
		case *ast.CallExpr:
			if id, isId := v.Fun.(*ast.Ident); isId && id.Name == "delete" && len(v.Args) > 0 && root(v.Args[0]) == rv {
				ok = false
			}
		}
		return true
	})
	return ok
}

func genDerivations() (string, string) {
	g := &cpGen{}
	g.collect(g.load())
	var escapes, writes []string
	type deriv struct {
		name, kind string
		returns    []string
	}
	var derivs []deriv
	var names []string
	for k := range g.methods {
		if strings.HasPrefix(k, "Project.") {
			names = append(names, k)
		}
	}
	sort.Strings(names)
	var visitor []string
	for _, k := range names {
		fd := g.methods[k]
		if fd.Body == nil || len(fd.Recv.List[0].Names) == 0 {
			continue
		}
		recv := fd.Recv.List[0].Names[0].Name
		m := strings.TrimPrefix(k, "Project.")
		takesCopy := ""
		ast.Inspect(fd.Body, func(n ast.Node) bool {
			if as, ok := n.(*ast.AssignStmt); ok && as.Tok == token.DEFINE && len(as.Lhs) == 1 && len(as.Rhs) == 1 && norm(src(as.Rhs[0])) == recv+".deepCopy()" {
				if id, ok := as.Lhs[0].(*ast.Ident); ok && takesCopy == "" {
					takesCopy = id.Name
				}
			}
			return true
		})
		isDeriv := fd.Type.Results != nil && len(fd.Type.Results.List) > 0 && norm(src(fd.Type.Results.List[0].Type)) == "*Project" && m != "deepCopy"
		if takesCopy != "" || isDeriv {
			a := &escAnalysis{g: g, method: m, recv: recv, env: map[string]ast.Expr{}, tainted: map[string]bool{}}
			a.env[recv] = fd.Recv.List[0].Type
			for _, p := range fd.Type.Params.List {
				for _, nm := range p.Names {
					t := p.Type
					if el, ok := t.(*ast.Ellipsis); ok {
						t = &ast.ArrayType{Elt: el.Elt}
					}
					a.env[nm.Name] = t
				}
			}
			// two passes: taint bound late in a loop body reaches uses earlier in the body
			a.stmt(fd.Body)
			a.escapes, a.writes = nil, nil
			a.stmt(fd.Body)
			escapes = append(escapes, a.escapes...)
			writes = append(writes, a.writes...)
		}
		if isDeriv {
			d := deriv{name: m, kind: "none"}
			if takesCopy != "" {
				d.kind = "copy"
			}
			seen := map[string]bool{}
			// return statements of the method itself (not of closures)
			var walk func(n ast.Node) bool
			walk = func(n ast.Node) bool {
				switch v := n.(type) {
				case *ast.FuncLit:
					return false
				case *ast.ReturnStmt:
					if len(v.Results) > 0 {
						r := v.Results[0]
						cls := "other:" + norm(src(r))
						switch {
						case norm(src(r)) == "nil":
							cls = "nil"
						case takesCopy != "" && norm(src(r)) == takesCopy:
							cls = "copy-var"
						default:
							if c, ok := r.(*ast.CallExpr); ok {
								if sel, ok := c.Fun.(*ast.SelectorExpr); ok {
									rt := root(sel.X)
									a := &escAnalysis{g: g}
									if (rt == recv || rt == takesCopy) && a.isDerivation("Project", sel.Sel.Name) {
										cls = "delegate"
										if takesCopy == "" {
											d.kind = "delegate"
										}
									}
								}
							}
						}
						if !seen[cls] {
							seen[cls] = true
							d.returns = append(d.returns, cls)
						}
					}
				}
				return true
			}
			ast.Inspect(fd.Body, walk)
			sort.Strings(d.returns)
			derivs = append(derivs, d)
		}
		if m == "withServices" {
			ast.Inspect(fd.Body, func(n ast.Node) bool {
				if c, ok := n.(*ast.CallExpr); ok {
					if id, ok := c.Fun.(*ast.Ident); ok && id.Name == "fn" && len(c.Args) == 2 {
						visitor = append(visitor, norm(src(c.Args[1])))
					}
				}
				return true
			})
		}
	}
	var b strings.Builder
	b.WriteString(header + "namespace CV.Gen.Derivations\n\n")
	fmt.Fprintf(&b, "/-- reference-bearing values read from the receiver of a Project derivation and stored / returned / handed on -/\ndef receiverEscapes : List String := [%s]\n\n", joinLean(escapes))
	fmt.Fprintf(&b, "/-- stores, deletes and mutating method calls through the receiver of a Project derivation -/\ndef receiverWrites : List String := [%s]\n\n", joinLean(writes))
	b.WriteString("/-- methods of Project returning *Project: (name, how the result is obtained, what the return statements return) -/\ndef derivations : List (String × String × List String) := [")
	for i, d := range derivs {
		if i > 0 {
			b.WriteString(",")
		}
		fmt.Fprintf(&b, "\n  (%s, %s, [%s])", leanStr(d.name), leanStr(d.kind), joinLean(d.returns))
	}
	b.WriteString("]\n\n")
	fmt.Fprintf(&b, "/-- what `withServices` (ForEachService) hands to the visitor as the service -/\ndef visitorArgs : List String := [%s]\n\n", joinLean(visitor))
	b.WriteString("end CV.Gen.Derivations\n")
	fmt.Fprintf(logw, "derivations: %d methods, %d receiver escapes, %d receiver writes, visitor args %v\n", len(derivs), len(escapes), len(writes), visitor)
	return "Derivations.lean", b.String()
}
