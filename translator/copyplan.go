package main

// copyplan.go — C14: regenerate lean/ComposeVerif/Gen/CopyPlan.lean.
//
//   * every type declaration of package `types` (non-test files) as a `CV.Heap.Ty`
//     (named types by id, struct fields by interned field id);
//   * every function of types/derived.gen.go (goderive output) as a `CV.Heap.Plan`: the body is
//     matched statement by statement against the six shapes goderive emits; anything else
//     becomes `.unknown "<source>"`, which no theorem accepts;
//   * `DeepCopy` methods the generated code calls (Extensions.DeepCopy) parsed the same way;
//   * the hand-written `deepCopy()` roots (`n := &T{}; deriveDeepCopyX(n, p); return n`).
//
// Purely syntactic (go/ast).  The "destination is fresh" assumption of the slice shape is
// checked here: every call of a generated function must directly follow `new` / `make` / `&T{}`.

import (
	"fmt"
	"go/ast"
	"go/token"
	"os"
	"path/filepath"
	"sort"
	"strings"
)

func init() { extraGenerators = append(extraGenerators, genCopyPlan) }

type cpGen struct {
	typeDecls  map[string]ast.Expr // named type → its definition
	typeIDs    map[string]int
	typeNames  []string
	fieldIDs   map[string]int
	fieldNames []string
	fnIDs      map[string]int
	fnNames    []string
	methods    map[string]*ast.FuncDecl // "Recv.Name" → decl
	funcs      map[string]*ast.FuncDecl
}

func norm(s string) string { return strings.Join(strings.Fields(s), " ") }

func (g *cpGen) load() []*ast.File {
	dir := filepath.Join(repo, "types")
	ents, err := os.ReadDir(dir)
	if err != nil {
		fmt.Fprintf(os.Stderr, "translator: %v\n", err)
		os.Exit(1)
	}
	var files []*ast.File
	for _, e := range ents {
		n := e.Name()
		if !strings.HasSuffix(n, ".go") || strings.HasSuffix(n, "_test.go") {
			continue
		}
		files = append(files, parse(filepath.Join("types", n)))
	}
	return files
}

func (g *cpGen) collect(files []*ast.File) {
	g.typeDecls = map[string]ast.Expr{}
	g.methods = map[string]*ast.FuncDecl{}
	g.funcs = map[string]*ast.FuncDecl{}
	fieldSet := map[string]bool{}
	for _, f := range files {
		for _, d := range f.Decls {
			switch v := d.(type) {
			case *ast.GenDecl:
				if v.Tok != token.TYPE {
					continue
				}
				for _, s := range v.Specs {
					ts := s.(*ast.TypeSpec)
					g.typeDecls[ts.Name.Name] = ts.Type
					if st, ok := ts.Type.(*ast.StructType); ok {
						for _, fl := range st.Fields.List {
							for _, n := range fl.Names {
								fieldSet[n.Name] = true
							}
							if len(fl.Names) == 0 {
								fieldSet["<embedded>"+src(fl.Type)] = true
							}
						}
					}
				}
			case *ast.FuncDecl:
				if v.Recv != nil && len(v.Recv.List) == 1 {
					rt := strings.TrimPrefix(src(v.Recv.List[0].Type), "*")
					g.methods[rt+"."+v.Name.Name] = v
				} else {
					g.funcs[v.Name.Name] = v
				}
			}
		}
	}
	for n := range g.typeDecls {
		g.typeNames = append(g.typeNames, n)
	}
	sort.Strings(g.typeNames)
	g.typeIDs = map[string]int{}
	for i, n := range g.typeNames {
		g.typeIDs[n] = i
	}
	for n := range fieldSet {
		g.fieldNames = append(g.fieldNames, n)
	}
	sort.Strings(g.fieldNames)
	g.fieldIDs = map[string]int{}
	for i, n := range g.fieldNames {
		g.fieldIDs[n] = i
	}
}

var scalarIdents = map[string]bool{
	"bool": true, "string": true, "int": true, "int8": true, "int16": true, "int32": true, "int64": true,
	"uint": true, "uint8": true, "uint16": true, "uint32": true, "uint64": true, "uintptr": true,
	"float32": true, "float64": true, "byte": true, "rune": true, "complex64": true, "complex128": true,
}

// scalar types of other packages that occur in the model
var scalarSelectors = map[string]bool{"time.Duration": true}

func (g *cpGen) ty(e ast.Expr) string {
	switch v := e.(type) {
	case *ast.Ident:
		if scalarIdents[v.Name] {
			return ".scalar"
		}
		if v.Name == "any" {
			return ".iface"
		}
		if id, ok := g.typeIDs[v.Name]; ok {
			return fmt.Sprintf("(.named %d)", id)
		}
		return ".unknown " + leanStr("type "+v.Name)
	case *ast.SelectorExpr:
		if scalarSelectors[src(v)] {
			return ".scalar"
		}
		return ".unknown " + leanStr("type "+src(v))
	case *ast.StarExpr:
		return "(.ptr " + g.ty(v.X) + ")"
	case *ast.ArrayType:
		if v.Len != nil {
			return ".unknown " + leanStr("array "+src(v))
		}
		return "(.slice " + g.ty(v.Elt) + ")"
	case *ast.MapType:
		if src(v.Key) != "string" {
			return ".unknown " + leanStr("map key "+src(v.Key))
		}
		return "(.map " + g.ty(v.Value) + ")"
	case *ast.InterfaceType:
		if v.Methods == nil || len(v.Methods.List) == 0 {
			return ".iface"
		}
		return ".unknown " + leanStr("interface "+src(v))
	case *ast.StructType:
		var fs []string
		for _, fl := range v.Fields.List {
			t := g.ty(fl.Type)
			if len(fl.Names) == 0 {
				fs = append(fs, fmt.Sprintf("(%d, %s)", g.fieldIDs["<embedded>"+src(fl.Type)], ".unknown "+leanStr("embedded field "+src(fl.Type))))
				continue
			}
			for _, n := range fl.Names {
				fs = append(fs, fmt.Sprintf("(%d, %s)", g.fieldIDs[n.Name], t))
			}
		}
		return "(.struct [" + strings.Join(fs, ", ") + "])"
	case *ast.ParenExpr:
		return g.ty(v.X)
	}
	return ".unknown " + leanStr("type "+src(e))
}

// ---------------------------------------------------------------- statements

func unknownPlan(n ast.Node) string {
	s := norm(src(n))
	if len(s) > 160 {
		s = s[:160] + "…"
	}
	return ".unknown " + leanStr(s)
}

func (g *cpGen) callPlan(kind int, name string) string {
	id, ok := g.fnIDs[name]
	if !ok {
		return ".unknown " + leanStr("call of "+name)
	}
	return fmt.Sprintf("(.call %d %d)", kind, id)
}

// isAssign: `lhs = rhs` (single)
func isAssign(s ast.Stmt, lhs, rhs string) bool {
	a, ok := s.(*ast.AssignStmt)
	return ok && a.Tok == token.ASSIGN && len(a.Lhs) == 1 && len(a.Rhs) == 1 && norm(src(a.Lhs[0])) == lhs && norm(src(a.Rhs[0])) == rhs
}

// isNewAssign: `lhs = new(T)`
func isNewAssign(s ast.Stmt, lhs string) bool {
	a, ok := s.(*ast.AssignStmt)
	if !ok || a.Tok != token.ASSIGN || len(a.Lhs) != 1 || len(a.Rhs) != 1 || norm(src(a.Lhs[0])) != lhs {
		return false
	}
	c, ok := a.Rhs[0].(*ast.CallExpr)
	return ok && src(c.Fun) == "new" && len(c.Args) == 1
}

// callOf: statement `f(a, b)` → (f, true)
func callOf(s ast.Stmt, a, b string) (string, bool) {
	es, ok := s.(*ast.ExprStmt)
	if !ok {
		return "", false
	}
	c, ok := es.X.(*ast.CallExpr)
	if !ok || len(c.Args) != 2 || norm(src(c.Args[0])) != a || norm(src(c.Args[1])) != b {
		return "", false
	}
	id, ok := c.Fun.(*ast.Ident)
	if !ok {
		return "", false
	}
	return id.Name, true
}

// the slice (re)allocation block goderive emits; the destination is fresh, so only the final `make` runs
func resizeTemplate(D, S, T string) string {
	return norm(fmt.Sprintf(`if %[1]s != nil {
		if len(%[2]s) > len(%[1]s) {
			if cap(%[1]s) >= len(%[2]s) {
				%[1]s = (%[1]s)[:len(%[2]s)]
			} else {
				%[1]s = make(%[3]s, len(%[2]s))
			}
		} else if len(%[2]s) < len(%[1]s) {
			%[1]s = (%[1]s)[:len(%[2]s)]
		}
	} else {
		%[1]s = make(%[3]s, len(%[2]s))
	}`, D, S, T))
}

// stmtPlan matches one copy statement for destination D and source S.
// ok=false, guard=true: the redundant `if S == nil { D = nil }` goderive emits before an if/else on the same test.
func (g *cpGen) stmtPlan(s ast.Stmt, D, S string, recvType string) (plan string, guard bool) {
	// A: D = S
	if isAssign(s, D, S) {
		return ".assign", false
	}
	// closure: func() { field := new(T); f(field, &S); D = *field }()
	if es, ok := s.(*ast.ExprStmt); ok {
		if c, ok := es.X.(*ast.CallExpr); ok && len(c.Args) == 0 {
			if fl, ok := c.Fun.(*ast.FuncLit); ok && len(fl.Body.List) == 3 {
				b := fl.Body.List
				if a, ok := b[0].(*ast.AssignStmt); ok && a.Tok == token.DEFINE && len(a.Lhs) == 1 && src(a.Lhs[0]) == "field" {
					if nc, ok := a.Rhs[0].(*ast.CallExpr); ok && src(nc.Fun) == "new" {
						if f, ok := callOf(b[1], "field", "&"+S); ok && isAssign(b[2], D, "*field") {
							return g.callPlan(0, f), false
						}
					}
				}
			}
		}
		return unknownPlan(s), false
	}
	is, ok := s.(*ast.IfStmt)
	if !ok || is.Init != nil {
		return unknownPlan(s), false
	}
	cond := norm(src(is.Cond))
	switch cond {
	case S + " == nil":
		if len(is.Body.List) != 1 || !isAssign(is.Body.List[0], D, "nil") {
			return unknownPlan(s), false
		}
		if is.Else == nil {
			return "", true
		}
		eb, ok := is.Else.(*ast.BlockStmt)
		if !ok || len(eb.List) != 2 {
			return unknownPlan(s), false
		}
		if isNewAssign(eb.List[0], D) {
			if isAssign(eb.List[1], "*"+D, "*"+S) {
				return "(.newPtr .assign)", false
			}
			if f, ok := callOf(eb.List[1], D, S); ok {
				return "(.newPtr " + g.callPlan(0, f) + ")", false
			}
			return unknownPlan(s), false
		}
		// slice
		if inner, ok := eb.List[0].(*ast.IfStmt); ok {
			// element type from the final make
			T := ""
			if fb, ok := inner.Else.(*ast.BlockStmt); ok && len(fb.List) == 1 {
				if a, ok := fb.List[0].(*ast.AssignStmt); ok && len(a.Rhs) == 1 {
					if mc, ok := a.Rhs[0].(*ast.CallExpr); ok && src(mc.Fun) == "make" && len(mc.Args) == 2 {
						if _, isSlice := mc.Args[0].(*ast.ArrayType); isSlice {
							T = norm(src(mc.Args[0]))
						}
					}
				}
			}
			if T == "" || norm(src(inner)) != resizeTemplate(D, S, T) {
				return unknownPlan(s), false
			}
			if f, ok := callOf(eb.List[1], D, S); ok {
				if f == "copy" {
					return "(.newSlice .assign)", false
				}
				return "(.newSlice " + g.callPlan(1, f) + ")", false
			}
		}
		return unknownPlan(s), false
	case S + " != nil":
		eb, ok := is.Else.(*ast.BlockStmt)
		if !ok || len(eb.List) != 1 || !isAssign(eb.List[0], D, "nil") || len(is.Body.List) != 2 {
			return unknownPlan(s), false
		}
		a, ok := is.Body.List[0].(*ast.AssignStmt)
		if !ok || a.Tok != token.ASSIGN || len(a.Lhs) != 1 || norm(src(a.Lhs[0])) != D {
			return unknownPlan(s), false
		}
		mc, ok := a.Rhs[0].(*ast.CallExpr)
		if !ok || src(mc.Fun) != "make" || len(mc.Args) != 2 || norm(src(mc.Args[1])) != "len("+S+")" {
			return unknownPlan(s), false
		}
		mt, ok := mc.Args[0].(*ast.MapType)
		if !ok || src(mt.Key) != "string" {
			return unknownPlan(s), false
		}
		if f, ok := callOf(is.Body.List[1], D, S); ok {
			return "(.newMap " + g.callPlan(2, f) + ")", false
		}
		// S.DeepCopy(D): a hand-written method of the field's type
		if es, ok := is.Body.List[1].(*ast.ExprStmt); ok {
			if c, ok := es.X.(*ast.CallExpr); ok && len(c.Args) == 1 && norm(src(c.Args[0])) == D {
				if sel, ok := c.Fun.(*ast.SelectorExpr); ok && norm(src(sel.X)) == S {
					// the static type of S: field of recvType
					ft := g.fieldTypeName(recvType, strings.TrimPrefix(S, "src."))
					if ft != "" {
						return "(.newMap " + g.callPlan(2, ft+"."+sel.Sel.Name) + ")", false
					}
				}
			}
		}
		return unknownPlan(s), false
	}
	return unknownPlan(s), false
}

// fieldTypeName: the named type of field F of struct type T ("" if not a plain identifier)
func (g *cpGen) fieldTypeName(T, F string) string {
	e := g.typeDecls[T]
	for {
		id, ok := e.(*ast.Ident)
		if !ok {
			break
		}
		e = g.typeDecls[id.Name]
	}
	st, ok := e.(*ast.StructType)
	if !ok {
		return ""
	}
	for _, fl := range st.Fields.List {
		for _, n := range fl.Names {
			if n.Name == F {
				if id, ok := fl.Type.(*ast.Ident); ok {
					return id.Name
				}
			}
		}
	}
	return ""
}

// fieldOf finds the field a top-level statement of a struct copier is about.
func fieldOf(s ast.Stmt) string {
	pick := func(e ast.Expr, root string) string {
		if sel, ok := e.(*ast.SelectorExpr); ok && src(sel.X) == root {
			return sel.Sel.Name
		}
		return ""
	}
	switch v := s.(type) {
	case *ast.AssignStmt:
		if len(v.Lhs) == 1 {
			return pick(v.Lhs[0], "dst")
		}
	case *ast.IfStmt:
		if be, ok := v.Cond.(*ast.BinaryExpr); ok {
			return pick(be.X, "src")
		}
	case *ast.ExprStmt:
		if c, ok := v.X.(*ast.CallExpr); ok {
			if fl, ok := c.Fun.(*ast.FuncLit); ok && len(fl.Body.List) == 3 {
				if a, ok := fl.Body.List[2].(*ast.AssignStmt); ok && len(a.Lhs) == 1 {
					return pick(a.Lhs[0], "dst")
				}
			}
		}
	}
	return ""
}

// elemPlan: statements of a range body for destination D and source S (guard statements skipped when followed by the real one)
func (g *cpGen) elemPlan(stmts []ast.Stmt, D, S string) string {
	var plans []string
	pendingGuard := false
	for _, s := range stmts {
		p, guard := g.stmtPlan(s, D, S, "")
		if guard {
			pendingGuard = true
			continue
		}
		pendingGuard = false
		plans = append(plans, p)
	}
	if pendingGuard || len(plans) != 1 {
		return ".unknown " + leanStr(fmt.Sprintf("loop body with %d copy statements", len(plans)))
	}
	return plans[0]
}

// fnPlan: (kind, plan) of one copy function with parameters (dst, src T)
func (g *cpGen) fnPlan(fd *ast.FuncDecl, dst, src_ string, pt ast.Expr) (int, string) {
	switch t := pt.(type) {
	case *ast.StarExpr:
		recv := src(t.X)
		var fs []string
		seen := map[string]bool{}
		for _, s := range fd.Body.List {
			F := fieldOf(s)
			if F == "" {
				fs = append(fs, fmt.Sprintf("(%d, %s)", len(g.fieldNames)+len(fs), unknownPlan(s)))
				continue
			}
			p, guard := g.stmtPlan(s, dst+"."+F, src_+"."+F, recv)
			if guard {
				p = unknownPlan(s)
			}
			if seen[F] {
				p = ".unknown " + leanStr("field assigned twice: "+F)
			}
			seen[F] = true
			id, ok := g.fieldIDs[F]
			if !ok {
				id = len(g.fieldNames) + len(fs)
			}
			fs = append(fs, fmt.Sprintf("(%d, %s)", id, p))
		}
		return 0, "(.fields [" + strings.Join(fs, ",\n      ") + "])"
	case *ast.ArrayType, *ast.MapType:
		kind := 1
		if _, isMap := pt.(*ast.MapType); isMap {
			kind = 2
		}
		if len(fd.Body.List) != 1 {
			return kind, unknownPlan(fd.Body)
		}
		rs, ok := fd.Body.List[0].(*ast.RangeStmt)
		if !ok || rs.Key == nil || rs.Value == nil || norm(src(rs.X)) != src_ || rs.Tok != token.DEFINE {
			return kind, unknownPlan(fd.Body)
		}
		k, v := src(rs.Key), src(rs.Value)
		return kind, g.elemPlan(rs.Body.List, dst+"["+k+"]", v)
	}
	return 0, ".unknown " + leanStr("parameter type "+src(pt))
}

func genCopyPlan() (string, string) {
	g := &cpGen{}
	files := g.load()
	g.collect(files)

	// generated functions, in source order
	type fn struct {
		name     string
		decl     *ast.FuncDecl
		dst, src string
		pt       ast.Expr
	}
	var fns []fn
	gen := parse("types/derived.gen.go")
	for _, d := range gen.Decls {
		fd, ok := d.(*ast.FuncDecl)
		if !ok || fd.Recv != nil || fd.Body == nil {
			continue
		}
		ps := fd.Type.Params.List
		if len(ps) == 1 && len(ps[0].Names) == 2 {
			fns = append(fns, fn{fd.Name.Name, fd, ps[0].Names[0].Name, ps[0].Names[1].Name, ps[0].Type})
		} else {
			fns = append(fns, fn{fd.Name.Name, fd, "", "", nil})
		}
	}
	// hand-written DeepCopy methods: `func (e T) DeepCopy(t T)`
	var mnames []string
	for k := range g.methods {
		if strings.HasSuffix(k, ".DeepCopy") {
			mnames = append(mnames, k)
		}
	}
	sort.Strings(mnames)
	for _, k := range mnames {
		fd := g.methods[k]
		if fd.Body == nil || len(fd.Recv.List[0].Names) != 1 || len(fd.Type.Params.List) != 1 || len(fd.Type.Params.List[0].Names) != 1 {
			fns = append(fns, fn{k, fd, "", "", nil})
			continue
		}
		// parameter type = the definition of the receiver's named type
		rt := strings.TrimPrefix(src(fd.Recv.List[0].Type), "*")
		fns = append(fns, fn{k, fd, fd.Type.Params.List[0].Names[0].Name, fd.Recv.List[0].Names[0].Name, g.typeDecls[rt]})
	}
	g.fnIDs = map[string]int{}
	for i, f := range fns {
		g.fnIDs[f.name] = i
		g.fnNames = append(g.fnNames, f.name)
	}

	var b strings.Builder
	b.WriteString("import ComposeVerif.Model.Heap\n" + header + "namespace CV.Gen.CopyPlan\nopen CV.Heap\n\n")
	fmt.Fprintf(&b, "/-- struct field names of package types; a field id is an index into this list -/\ndef fieldNames : List String := [%s]\n\n", joinLean(g.fieldNames))
	fmt.Fprintf(&b, "/-- named types of package types; a type id is an index into this list -/\ndef typeNames : List String := [%s]\n\n", joinLean(g.typeNames))
	b.WriteString("/-- type declarations (non-test files of package types) -/\ndef types : List (Nat × Ty) := [")
	for i, n := range g.typeNames {
		if i > 0 {
			b.WriteString(",")
		}
		e := g.typeDecls[n]
		t := g.ty(e)
		if _, isFunc := e.(*ast.FuncType); isFunc {
			t = ".unknown \"func type\""
		}
		fmt.Fprintf(&b, "\n  -- %s\n  (%d, %s)", n, i, t)
	}
	b.WriteString("]\n\n")
	fmt.Fprintf(&b, "/-- copy functions: types/derived.gen.go in source order, then hand-written DeepCopy methods -/\ndef fnNames : List String := [%s]\n\n", joinLean(g.fnNames))
	b.WriteString("/-- (function id, kind: 0 = copies a pointee, 1 = slice elements, 2 = map entries, plan) -/\ndef fns : List (Nat × Nat × Plan) := [")
	nUnknown := 0
	for i, f := range fns {
		if i > 0 {
			b.WriteString(",")
		}
		kind, plan := 0, ".unknown \"signature\""
		if f.pt != nil {
			kind, plan = g.fnPlan(f.decl, f.dst, f.src, f.pt)
		}
		nUnknown += strings.Count(plan, ".unknown")
		fmt.Fprintf(&b, "\n  -- %s(%s)\n  (%d, %d, %s)", f.name, func() string {
			if f.pt != nil {
				return norm(src(f.pt))
			}
			return "?"
		}(), i, kind, plan)
	}
	b.WriteString("]\n\n")

	// roots: hand-written deepCopy() methods
	b.WriteString("/-- hand-written `deepCopy()` methods: (receiver type, its Go type, plan) -/\ndef roots : List (String × Ty × Plan) := [")
	var rnames []string
	for k := range g.methods {
		if strings.HasSuffix(k, ".deepCopy") {
			rnames = append(rnames, k)
		}
	}
	sort.Strings(rnames)
	for i, k := range rnames {
		fd := g.methods[k]
		T := strings.TrimSuffix(k, ".deepCopy")
		plan := unknownPlan(fd.Body)
		if len(fd.Recv.List[0].Names) == 1 && src(fd.Recv.List[0].Type) == "*"+T && fd.Body != nil && len(fd.Body.List) == 4 {
			p := fd.Recv.List[0].Names[0].Name
			want0 := norm("if " + p + " == nil { return nil }")
			st := fd.Body.List
			if norm(src(st[0])) == want0 && norm(src(st[3])) == "return n" && norm(src(st[1])) == "n := &"+T+"{}" {
				if f, ok := callOf(st[2], "n", p); ok {
					plan = "(.newPtr " + g.callPlan(0, f) + ")"
				}
			}
		}
		nUnknown += strings.Count(plan, ".unknown")
		if i > 0 {
			b.WriteString(",")
		}
		fmt.Fprintf(&b, "\n  (%s, %s, %s)", leanStr(T), g.ty(&ast.StarExpr{X: ast.NewIdent(T)}), plan)
	}
	b.WriteString("]\n\n")
	b.WriteString("end CV.Gen.CopyPlan\n")
	fmt.Fprintf(logw, "copy plans: %d types, %d fields, %d functions, %d roots, %d unknown shapes\n", len(g.typeNames), len(g.fieldNames), len(fns), len(rnames), nUnknown)
	return "CopyPlan.lean", b.String()
}
