package main

// Facts for C07 (Gen/C07Sites.lean), round 5: the glue that builds the mapping template.Substitute sees inside a
// whole load (Model/TemplateSites.lean was written against it):
//
//   - types.ConfigDetails.LookupEnv and the platform switch isCaseInsensitiveEnvVars (types/config.go),
//   - types.Mapping.Merge (types/mapping.go),
//   - the lookup closure of dotenv.GetEnvFromFile (dotenv/env.go),
//   - loader.toOptions: the composite literal of the default interpolation options,
//   - loader.ApplyInclude: where the included file's environment, lookup and Substitute come from,
//   - every call of interp.Interpolate in package loader (a new call site with another mapping shows up here),
//   - every read of Options.SkipInterpolation in package loader.
//
// Each fact is go/printer text with white space squashed, comments dropped.

import (
	"go/ast"
	"os"
	"path/filepath"
	"sort"
	"strings"
)

func init() { extraGenerators = append(extraGenerators, genC07Sites) }

func c07StrList(l []string) string {
	var q []string
	for _, s := range l {
		q = append(q, leanStr(s))
	}
	return "[" + strings.Join(q, ",\n   ") + "]"
}

func genC07Sites() (string, string) {
	var b strings.Builder
	b.WriteString(header + "namespace CV.Gen\n\n")

	// types.ConfigDetails.LookupEnv
	cfgFile := c07ParseNoComments("types/config.go")
	var lookupEnv []ast.Stmt
	if fd := findFunc(cfgFile, "LookupEnv"); fd != nil {
		lookupEnv = fd.Body.List
	}
	b.WriteString("/-- types.ConfigDetails.LookupEnv: its statements -/\n")
	b.WriteString("def c07_LookupEnv : List String :=\n  " + c07Stmts(lookupEnv) + "\n\n")
	caseIns := "unknown"
	ast.Inspect(cfgFile, func(n ast.Node) bool {
		if vs, ok := n.(*ast.ValueSpec); ok && len(vs.Names) == 1 && vs.Names[0].Name == "isCaseInsensitiveEnvVars" && len(vs.Values) == 1 {
			caseIns = c07Squash(src(vs.Values[0]))
		}
		return true
	})
	b.WriteString("/-- types.isCaseInsensitiveEnvVars: its initialiser -/\n")
	b.WriteString("def c07_isCaseInsensitiveEnvVars : String := " + leanStr(caseIns) + "\n\n")

	// types.Mapping.Merge
	var merge []ast.Stmt
	mergeSig := "unknown"
	if fd := findFunc(c07ParseNoComments("types/mapping.go"), "Merge"); fd != nil {
		merge = fd.Body.List
		if fd.Recv != nil && len(fd.Recv.List) == 1 {
			mergeSig = c07Squash(src(fd.Recv.List[0].Type) + " " + src(fd.Type))
		}
	}
	b.WriteString("/-- types.Mapping.Merge: receiver type + signature, then its statements -/\n")
	b.WriteString("def c07_Mapping_Merge : String × List String :=\n  (" + leanStr(mergeSig) + ",\n  " + c07Stmts(merge) + ")\n\n")

	// dotenv.GetEnvFromFile: the closure handed to ParseWithLookup
	var envClosure []ast.Stmt
	if fd := findFunc(c07ParseNoComments("dotenv/env.go"), "GetEnvFromFile"); fd != nil {
		ast.Inspect(fd.Body, func(n ast.Node) bool {
			if call, ok := n.(*ast.CallExpr); ok && src(call.Fun) == "ParseWithLookup" && len(call.Args) == 2 {
				if fl, ok := call.Args[1].(*ast.FuncLit); ok {
					envClosure = fl.Body.List
				}
				return false
			}
			return true
		})
	}
	b.WriteString("/-- dotenv.GetEnvFromFile: statements of the lookup closure handed to ParseWithLookup -/\n")
	b.WriteString("def c07_GetEnvFromFile_lookup : List String :=\n  " + c07Stmts(envClosure) + "\n\n")

	// loader.toOptions: first statement (the composite literal with the interpolation options)
	toOpts := "unknown"
	if fd := findFunc(c07ParseNoComments("loader/loader.go"), "toOptions"); fd != nil && len(fd.Body.List) > 0 {
		toOpts = c07Squash(src(fd.Body.List[0]))
	}
	b.WriteString("/-- loader.toOptions: its first statement -/\n")
	b.WriteString("def c07_toOptions : String := " + leanStr(toOpts) + "\n\n")

	// loader.ApplyInclude: the statements that mention the environment or the interpolation options
	var inc []string
	if fd := findFunc(c07ParseNoComments("loader/include.go"), "ApplyInclude"); fd != nil {
		ast.Inspect(fd.Body, func(n ast.Node) bool {
			as, ok := n.(*ast.AssignStmt)
			if !ok {
				return true
			}
			t := c07Squash(src(as))
			if strings.HasPrefix(t, "envFromFile, err :=") || strings.HasPrefix(t, "config := types.ConfigDetails") ||
				strings.HasPrefix(t, "loadOptions.Interpolate =") ||
				strings.HasPrefix(t, "loadOptions :=") {
				inc = append(inc, t)
			}
			return true
		})
	}
	// loader.loadYamlModel: where ApplyInclude's environment comes from
	for _, fn := range []string{"loadYamlModel", "loadYamlFile"} {
		fd := findFunc(c07ParseNoComments("loader/loader.go"), fn)
		if fd == nil {
			continue
		}
		ast.Inspect(fd.Body, func(n ast.Node) bool {
			switch x := n.(type) {
			case *ast.AssignStmt:
				if t := c07Squash(src(x)); strings.HasPrefix(t, "workingDir, environment :=") {
					inc = append(inc, t)
				}
			case *ast.CallExpr:
				if f := src(x.Fun); f == "ApplyInclude" || f == "loadYamlFile" {
					inc = append(inc, c07Squash(src(x)))
				}
			}
			return true
		})
	}
	b.WriteString("/-- loader.ApplyInclude: the assignments that build the included file's environment and interpolation options, then (loader.loadYamlModel) where its environment argument comes from -/\n")
	b.WriteString("def c07_include_env : List String :=\n  " + c07StrList(inc) + "\n\n")

	// every call of interp.Interpolate and every mention of SkipInterpolation in package loader (non-test, non-verif files)
	var calls, skips []string
	files, _ := filepath.Glob(filepath.Join(repo, "loader", "*.go"))
	sort.Strings(files)
	for _, p := range files {
		base := filepath.Base(p)
		if strings.HasSuffix(base, "_test.go") || strings.HasPrefix(base, "verif_") {
			continue
		}
		if _, err := os.Stat(p); err != nil {
			continue
		}
		f := c07ParseNoComments(filepath.Join("loader", base))
		ast.Inspect(f, func(n ast.Node) bool {
			switch x := n.(type) {
			case *ast.CallExpr:
				if src(x.Fun) == "interp.Interpolate" {
					calls = append(calls, base+": "+c07Squash(src(x)))
				}
			case *ast.IfStmt:
				if c := c07Squash(src(x.Cond)); strings.Contains(c, "SkipInterpolation") {
					skips = append(skips, base+": if "+c)
				}
			}
			return true
		})
	}
	b.WriteString("/-- package loader: every call of interp.Interpolate (file: call), in file / source order -/\n")
	b.WriteString("def c07_loader_interpolate_calls : List String :=\n  " + c07StrList(calls) + "\n\n")
	b.WriteString("/-- package loader: every `if` whose condition reads SkipInterpolation -/\n")
	b.WriteString("def c07_loader_skip_interpolation : List String :=\n  " + c07StrList(skips) + "\n\n")

	// round 6 (Model/TemplateDocs.lean): who allocates, copies and writes the *interp.Options cell —
	// every assignment in package loader whose left-hand side mentions `Interpolate`, every `Interpolate:` field of a
	// composite literal (Options.clone copies the pointer), and every `.clone()` call (who walks with a copied pointer)
	var cells []string
	for _, p := range files {
		base := filepath.Base(p)
		if strings.HasSuffix(base, "_test.go") || strings.HasPrefix(base, "verif_") {
			continue
		}
		f := c07ParseNoComments(filepath.Join("loader", base))
		ast.Inspect(f, func(n ast.Node) bool {
			switch x := n.(type) {
			case *ast.AssignStmt:
				for _, l := range x.Lhs {
					if strings.Contains(src(l), "Interpolate") {
						cells = append(cells, base+": "+c07Squash(src(x)))
						break
					}
				}
			case *ast.KeyValueExpr:
				if src(x.Key) == "Interpolate" {
					cells = append(cells, base+": field "+c07Squash(src(x)))
				}
			case *ast.CallExpr:
				if sel, ok := x.Fun.(*ast.SelectorExpr); ok && sel.Sel.Name == "clone" {
					cells = append(cells, base+": call "+c07Squash(src(x)))
				}
			}
			return true
		})
	}
	b.WriteString("/-- package loader: every assignment to / through `Interpolate`, every `Interpolate:` field of a composite literal, every `.clone()` call -/\n")
	b.WriteString("def c07_interpolate_cells : List String :=\n  " + c07StrList(cells) + "\n\n")

	b.WriteString("end CV.Gen\n")
	return "C07Sites.lean", b.String()
}
