package main

// Gen/LockSource.lean — the source facts behind Model/Locked.lean (C19):
//
//   - statement skeletons of the four functions whose bodies are the critical sections of the model
//     (loader.(*Options).warnObsoleteVersion; graph.(*traversal).ready / enter / done);
//   - every access of the mutex-guarded fields of graph.traversal (`status`, `results`) anywhere in package graph:
//     (field, enclosing function, read/write, the function body starts with `<recv>.mu.Lock(); defer <recv>.mu.Unlock()`
//     on the receiver the access goes through);
//   - every access of the package-level variables that have a lock-held write (loader.versionWarning), with the NAME of
//     the mutex held at that point (the first two statements of the enclosing function are `<mu>.Lock(); defer <mu>.Unlock()`,
//     or an explicit `<mu>.Lock()` statement precedes the access in the same block with no `<mu>.Unlock()` in between);
//   - the read of `t.results` outside the lock happens after `walk` has returned (all goroutines joined by `eg.Wait`).
//
// Purely syntactic (go/ast over the normal build: files with a `verif` build tag are skipped).

import (
	"fmt"
	"go/ast"
	"go/token"
	"os"
	"path/filepath"
	"sort"
	"strings"
)

func c19NonTestFiles(pkg string) []string {
	ents, err := os.ReadDir(filepath.Join(repo, pkg))
	if err != nil {
		return nil
	}
	var out []string
	for _, e := range ents {
		n := e.Name()
		if !strings.HasSuffix(n, ".go") || strings.HasSuffix(n, "_test.go") || strings.HasPrefix(n, "verif_") {
			continue
		}
		out = append(out, filepath.Join(pkg, n))
	}
	sort.Strings(out)
	return out
}

// c19LockCall: `<x>.Lock()` / `<x>.Unlock()` as an expression statement or deferred; returns the printed mutex expression.
func c19LockCall(s ast.Stmt, method string, deferred bool) (string, bool) {
	var call *ast.CallExpr
	switch x := s.(type) {
	case *ast.ExprStmt:
		if deferred {
			return "", false
		}
		call, _ = x.X.(*ast.CallExpr)
	case *ast.DeferStmt:
		if !deferred {
			return "", false
		}
		call = x.Call
	}
	if call == nil || len(call.Args) != 0 {
		return "", false
	}
	sel, ok := call.Fun.(*ast.SelectorExpr)
	if !ok || sel.Sel.Name != method {
		return "", false
	}
	return src(sel.X), true
}

// c19HeldAt: the mutexes held at position pos inside the function body: prologue `m.Lock(); defer m.Unlock()`, or an explicit
// `m.Lock()` earlier in a block enclosing pos that is not followed by `m.Unlock()` before pos.
func c19HeldAt(body *ast.BlockStmt, pos token.Pos) []string {
	held := map[string]bool{}
	var walkBlock func(list []ast.Stmt)
	walkBlock = func(list []ast.Stmt) {
		for i, s := range list {
			if s.Pos() > pos {
				return
			}
			if m, ok := c19LockCall(s, "Lock", false); ok && s.End() <= pos {
				// `defer m.Unlock()` directly after, or any later explicit Unlock before pos, decides
				held[m] = true
				_ = i
			}
			if m, ok := c19LockCall(s, "Unlock", false); ok && s.End() <= pos {
				delete(held, m)
			}
			if s.Pos() <= pos && pos < s.End() {
				ast.Inspect(s, func(n ast.Node) bool {
					if b, ok := n.(*ast.BlockStmt); ok && b.Pos() <= pos && pos < b.End() {
						walkBlock(b.List)
						return false
					}
					if _, ok := n.(*ast.FuncLit); ok {
						// a closure runs later, possibly on another goroutine: locks of the enclosing function do not count
						if n.Pos() <= pos && pos < n.End() {
							for k := range held {
								delete(held, k)
							}
						}
					}
					return true
				})
			}
		}
	}
	walkBlock(body.List)
	var out []string
	for k := range held {
		out = append(out, k)
	}
	sort.Strings(out)
	return out
}

type c19Access struct {
	name, fn, kind string
	held           []string
}

// c19Accesses lists every occurrence of `match(expr)` inside function bodies of the package with read/write kind.
func c19Accesses(pkg string, match func(e ast.Expr) (string, bool)) []c19Access {
	var out []c19Access
	for _, rel := range c19NonTestFiles(pkg) {
		f := parse(rel)
		if c19HasVerifTag(f) {
			continue
		}
		for _, d := range f.Decls {
			fd, ok := d.(*ast.FuncDecl)
			if !ok || fd.Body == nil {
				continue
			}
			fn := fd.Name.Name
			if fd.Recv != nil && len(fd.Recv.List) == 1 {
				fn = c19RecvName(fd.Recv.List[0].Type) + "." + fn
			}
			writes := map[ast.Expr]bool{}
			mark := func(e ast.Expr) {
				// x = …, x[k] = …, x.f = …, x = append(x, …): the base expression is written
				for {
					switch y := e.(type) {
					case *ast.IndexExpr:
						writes[y.X] = true
						e = y.X
						continue
					case *ast.ParenExpr:
						e = y.X
						continue
					case *ast.StarExpr:
						e = y.X
						continue
					}
					break
				}
				writes[e] = true
			}
			ast.Inspect(fd.Body, func(n ast.Node) bool {
				switch x := n.(type) {
				case *ast.AssignStmt:
					if x.Tok != token.DEFINE {
						for _, l := range x.Lhs {
							mark(l)
						}
					}
				case *ast.IncDecStmt:
					mark(x.X)
				case *ast.CallExpr:
					if id, ok := x.Fun.(*ast.Ident); ok && (id.Name == "delete" || id.Name == "clear") && len(x.Args) > 0 {
						mark(x.Args[0])
					}
				case *ast.UnaryExpr:
					if x.Op == token.AND {
						mark(x.X) // address taken: treated as a write
					}
				}
				return true
			})
			ast.Inspect(fd.Body, func(n ast.Node) bool {
				e, ok := n.(ast.Expr)
				if !ok {
					return true
				}
				name, ok := match(e)
				if !ok {
					return true
				}
				kind := "read"
				if writes[e] {
					kind = "write"
				}
				out = append(out, c19Access{name: name, fn: pkg + "." + fn, kind: kind, held: c19HeldAt(fd.Body, e.Pos())})
				return true
			})
		}
	}
	return out
}

func c19HasVerifTag(f *ast.File) bool {
	for _, cg := range f.Comments {
		if cg.Pos() > f.Package {
			break
		}
		for _, c := range cg.List {
			if strings.HasPrefix(c.Text, "//go:build") && strings.Contains(c.Text, "verif") && !strings.Contains(c.Text, "!verif") {
				return true
			}
		}
	}
	return false
}

func c19RecvName(t ast.Expr) string {
	switch x := t.(type) {
	case *ast.StarExpr:
		return c19RecvName(x.X)
	case *ast.IndexExpr:
		return c19RecvName(x.X)
	case *ast.IndexListExpr:
		return c19RecvName(x.X)
	case *ast.Ident:
		return x.Name
	}
	return src(t)
}

// c19ResultsReadAfterWalk: in CollectInDependencyOrder the statement that calls `walk` precedes the statement that reads
// `t.results`, both at the top level of the body, and the function starts no goroutine itself.
func c19ResultsReadAfterWalk() bool {
	f := parse("graph/services.go")
	for _, d := range f.Decls {
		fd, ok := d.(*ast.FuncDecl)
		if !ok || fd.Name.Name != "CollectInDependencyOrder" || fd.Body == nil {
			continue
		}
		walkAt, readAt, spawns := -1, -1, false
		for i, s := range fd.Body.List {
			ast.Inspect(s, func(n ast.Node) bool {
				switch x := n.(type) {
				case *ast.GoStmt:
					spawns = true
				case *ast.CallExpr:
					if id, ok := x.Fun.(*ast.Ident); ok && id.Name == "walk" && walkAt < 0 {
						walkAt = i
					}
					if sel, ok := x.Fun.(*ast.SelectorExpr); ok && sel.Sel.Name == "Go" {
						spawns = true
					}
				case *ast.SelectorExpr:
					if x.Sel.Name == "results" && readAt < 0 {
						readAt = i
					}
				}
				return true
			})
		}
		return walkAt >= 0 && readAt > walkAt && !spawns
	}
	return false
}

func init() {
	extraGenerators = append(extraGenerators, func() (string, string) {
		var b strings.Builder
		b.WriteString(header + "namespace CV.Gen\n\n")
		emit := func(name, doc string, lines []string) {
			fmt.Fprintf(&b, "/-- %s -/\ndef %s : List String := [\n", doc, name)
			for i, l := range lines {
				if i > 0 {
					b.WriteString(",\n")
				}
				b.WriteString("  " + leanStr(l))
			}
			b.WriteString("]\n\n")
		}
		emit("warnSource", "loader/loader.go: `warnObsoleteVersion`, one trimmed line per entry", c19Skeleton("loader/loader.go", "warnObsoleteVersion"))
		emit("travReadySource", "graph/traversal.go: `ready`", c19Skeleton("graph/traversal.go", "ready"))
		emit("travEnterSource", "graph/traversal.go: `enter`", c19Skeleton("graph/traversal.go", "enter"))
		emit("travDoneSource", "graph/traversal.go: `done`", c19Skeleton("graph/traversal.go", "done"))

		// guarded fields of graph.traversal
		fieldAcc := c19Accesses("graph", func(e ast.Expr) (string, bool) {
			sel, ok := e.(*ast.SelectorExpr)
			if !ok || (sel.Sel.Name != "status" && sel.Sel.Name != "results") {
				return "", false
			}
			return src(sel.X) + "." + sel.Sel.Name, true
		})
		b.WriteString("/-- every access of the fields `status` / `results` in package graph: (expression, function, read/write, mutexes held) -/\n")
		b.WriteString("def travGuardedFieldAccesses : List (String × String × String × List String) := [\n")
		for i, a := range fieldAcc {
			if i > 0 {
				b.WriteString(",\n")
			}
			fmt.Fprintf(&b, "  (%s, %s, %s, [%s])", leanStr(a.name), leanStr(a.fn), leanStr(a.kind), joinLean(a.held))
		}
		b.WriteString("]\n\n")
		fmt.Fprintf(&b, "/-- `CollectInDependencyOrder` reads `t.results` in a statement after the one that calls `walk`, and starts no goroutine -/\ndef travResultsReadAfterWalk : Bool := %v\n\n", c19ResultsReadAfterWalk())

		// package-level variables of loader guarded by a mutex: every access with the mutex held there
		varAcc := c19Accesses("loader", func(e ast.Expr) (string, bool) {
			id, ok := e.(*ast.Ident)
			if !ok || id.Name != "versionWarning" {
				return "", false
			}
			return "loader.versionWarning", true
		})
		b.WriteString("/-- every access of `loader.versionWarning` in function bodies: (variable, function, read/write, mutexes held) -/\n")
		b.WriteString("def versionWarningAccesses : List (String × String × String × List String) := [\n")
		for i, a := range varAcc {
			if i > 0 {
				b.WriteString(",\n")
			}
			fmt.Fprintf(&b, "  (%s, %s, %s, [%s])", leanStr(a.name), leanStr(a.fn), leanStr(a.kind), joinLean(a.held))
		}
		b.WriteString("]\n\nend CV.Gen\n")
		fmt.Fprintf(logw, "lock source: %d field accesses, %d variable accesses\n", len(fieldAcc), len(varAcc))
		return "LockSource.lean", b.String()
	})
}
