package main

// Facts about dotenv/parser.go regenerated for property C18 → Gen/Dotenv.lean:
// the two regular expressions, the rune sets of isSpace / locateKeyName, the quote and
// comment characters, and Go's own unicode classification of the modelled code points.

import (
	"fmt"
	"go/ast"
	"go/token"
	"strconv"
	"strings"
	"unicode"
)

func init() {
	extraGenerators = append(extraGenerators, genDotenv)
}

// runeOf evaluates a rune-valued case expression: a character literal, an integer literal or a named constant.
func runeOf(e ast.Expr, consts map[string]int) (int, bool) {
	switch v := e.(type) {
	case *ast.BasicLit:
		switch v.Kind {
		case token.CHAR:
			s, err := strconv.Unquote(v.Value)
			if err == nil {
				r := []rune(s)
				if len(r) == 1 {
					return int(r[0]), true
				}
			}
		case token.INT:
			n, err := strconv.ParseInt(v.Value, 0, 32)
			if err == nil {
				return int(n), true
			}
		}
	case *ast.Ident:
		n, ok := consts[v.Name]
		return n, ok
	}
	return 0, false
}

// regexVar returns the pattern of `var name = regexp.MustCompile(<string literal>)`.
func regexVar(f *ast.File, name string) string {
	res := "unknown"
	ast.Inspect(f, func(n ast.Node) bool {
		vs, ok := n.(*ast.ValueSpec)
		if !ok || len(vs.Names) != 1 || vs.Names[0].Name != name || len(vs.Values) != 1 {
			return true
		}
		if call, ok := vs.Values[0].(*ast.CallExpr); ok && src(call.Fun) == "regexp.MustCompile" && len(call.Args) == 1 {
			if bl, ok := call.Args[0].(*ast.BasicLit); ok {
				if s, err := strconv.Unquote(bl.Value); err == nil {
					res = s
				}
			}
		}
		return false
	})
	return res
}

func natList(l []int) string {
	var q []string
	for _, n := range l {
		q = append(q, strconv.Itoa(n))
	}
	return "[" + strings.Join(q, ", ") + "]"
}

func genDotenv() (string, string) {
	f := parse("dotenv/parser.go")
	consts := map[string]int{}
	ast.Inspect(f, func(n ast.Node) bool {
		vs, ok := n.(*ast.ValueSpec)
		if !ok {
			return true
		}
		for i, nm := range vs.Names {
			if i < len(vs.Values) {
				if r, ok := runeOf(vs.Values[i], nil); ok {
					consts[nm.Name] = r
				}
			}
		}
		return true
	})
	// case lists of the switch statements in isSpace and locateKeyName, in source order; -1 = not understood
	caseLists := func(fn string) [][]int {
		var out [][]int
		for _, d := range f.Decls {
			fd, ok := d.(*ast.FuncDecl)
			if !ok || fd.Name.Name != fn {
				continue
			}
			ast.Inspect(fd, func(n ast.Node) bool {
				cc, ok := n.(*ast.CaseClause)
				if !ok || cc.List == nil {
					return true
				}
				var l []int
				for _, e := range cc.List {
					if r, ok := runeOf(e, consts); ok {
						l = append(l, r)
					} else {
						l = append(l, -1)
					}
				}
				out = append(out, l)
				return true
			})
		}
		return out
	}
	var b strings.Builder
	b.WriteString(header + "namespace CV.Gen\n\n")
	fmt.Fprintf(&b, "def dotenv_escapeSeqRegex : String := %s\n", leanStr(regexVar(f, "escapeSeqRegex")))
	fmt.Fprintf(&b, "def dotenv_exportRegex : String := %s\n", leanStr(regexVar(f, "exportRegex")))
	for _, c := range []string{"charComment", "prefixSingleQuote", "prefixDoubleQuote"} {
		v, ok := consts[c]
		if !ok {
			v = 0
		}
		fmt.Fprintf(&b, "def dotenv_%s : Nat := %d\n", c, v)
	}
	sp := caseLists("isSpace")
	b.WriteString("/-- parser.go:isSpace — the runes of its `case` lists (a negative entry would be an expression the translator does not understand; Nat has none, so it is emitted as 1114112) -/\n")
	var flat []int
	for _, l := range sp {
		for _, r := range l {
			if r < 0 {
				r = 1114112
			}
			flat = append(flat, r)
		}
	}
	fmt.Fprintf(&b, "def dotenv_isSpaceRunes : List Nat := %s\n", natList(flat))
	lk := caseLists("locateKeyName")
	b.WriteString("/-- locateKeyName — the `case` lists of its switch, in source order: delimiters, then punctuation allowed in keys -/\n")
	var rows []string
	for _, l := range lk {
		for i, r := range l {
			if r < 0 {
				l[i] = 1114112
			}
		}
		rows = append(rows, natList(l))
	}
	fmt.Fprintf(&b, "def dotenv_keySwitch : List (List Nat) := [%s]\n", strings.Join(rows, ", "))
	// Go's unicode tables on the modelled domain: ASCII, U+0085, U+00A0 and three sample letters / numbers
	b.WriteString("/-- (code point, unicode.IsSpace, unicode.IsLetter || unicode.IsNumber) as computed by the Go toolchain -/\n")
	b.WriteString("def dotenv_unicodeClass : List (Nat × Bool × Bool) := [")
	var cps []int
	for i := 0; i < 128; i++ {
		cps = append(cps, i)
	}
	cps = append(cps, 0x85, 0xA0, 0xE9, 0xB2, 0x4E16)
	// representatives of the generic class (neither space nor letter nor number): currency, arrow, combining mark,
	// CJK punctuation, private use, emoji beyond the BMP
	cps = append(cps, 0x20AC, 0x2192, 0x0301, 0x3001, 0xE000, 0x1F600)
	for i, cp := range cps {
		if i > 0 {
			b.WriteString(", ")
		}
		r := rune(cp)
		fmt.Fprintf(&b, "(%d, %v, %v)", cp, unicode.IsSpace(r), unicode.IsLetter(r) || unicode.IsNumber(r))
	}
	b.WriteString("]\n\n")
	// bodies of the modelled functions (comments and layout removed): any textual edit breaks `modelled_functions_are_source`
	gf := parse("dotenv/godotenv.go")
	ef := parse("dotenv/env.go")
	b.WriteString("/-- source text of every function the C18 model mirrors -/\n")
	for _, fb := range []struct {
		name string
		file *ast.File
		recv string
		fn   string
	}{
		{"parse", f, "parser", "parse"},
		{"getStatementStart", f, "parser", "getStatementStart"},
		{"locateKeyName", f, "parser", "locateKeyName"},
		{"extractVarValue", f, "parser", "extractVarValue"},
		{"expandEscapes", f, "", "expandEscapes"},
		{"indexOfNonSpaceChar", f, "parser", "indexOfNonSpaceChar"},
		{"hasQuotePrefix", f, "", "hasQuotePrefix"},
		{"isSpace", f, "", "isSpace"},
		{"expandVariables", gf, "", "expandVariables"},
		{"UnmarshalWithLookup", gf, "", "UnmarshalWithLookup"},
		{"ParseWithLookup", gf, "", "ParseWithLookup"},
		{"ReadWithLookup", gf, "", "ReadWithLookup"},
		{"GetEnvFromFile", ef, "", "GetEnvFromFile"},
	} {
		fmt.Fprintf(&b, "def dotenv_body_%s : String := %s\n", fb.name, leanStr(funcBody(fb.file, fb.recv, fb.fn)))
	}
	// round 6: the glue around the parser that the `dotenvGlue` stream drives
	ff := parse("dotenv/format.go")
	for _, fb := range []struct {
		name string
		file *ast.File
		fn   string
	}{
		{"Parse", gf, "Parse"},
		{"UnmarshalBytesWithLookup", gf, "UnmarshalBytesWithLookup"},
		{"ReadFile", gf, "ReadFile"},
		{"Read", gf, "Read"},
		{"RegisterFormat", ff, "RegisterFormat"},
		{"ParseWithFormat", ff, "ParseWithFormat"},
	} {
		fmt.Fprintf(&b, "def dotenv_body_%s : String := %s\n", fb.name, leanStr(funcBody(fb.file, "", fb.fn)))
	}
	fmt.Fprintf(&b, "def dotenv_startsWithDigitRegex : String := %s\n", leanStr(regexVar(gf, "startsWithDigitRegex")))
	// round 6: every index / slice expression of dotenv/parser.go, in source order, as (function, kind, text of the expression).
	// The totality theorem `index_sites_are_modelled` pins this list to the table of model sites, so an added or
	// changed index expression is a broken obligation until the model accounts for it.
	b.WriteString("/-- every `x[i]` / `x[i:j]` expression of dotenv/parser.go: (enclosing function, \"index\" | \"slice\", expression) -/\n")
	b.WriteString("def dotenv_indexSites : List (String × String × String) := [")
	nSites := 0
	for _, d := range f.Decls {
		fd, ok := d.(*ast.FuncDecl)
		if !ok || fd.Body == nil {
			continue
		}
		ast.Inspect(fd.Body, func(n ast.Node) bool {
			kind := ""
			switch n.(type) {
			case *ast.IndexExpr:
				kind = "index"
			case *ast.SliceExpr:
				kind = "slice"
			}
			if kind != "" {
				if nSites > 0 {
					b.WriteString(",\n  ")
				}
				nSites++
				fmt.Fprintf(&b, "(%s, %s, %s)", leanStr(fd.Name.Name), leanStr(kind), leanStr(strings.Join(strings.Fields(src(n)), " ")))
			}
			return true
		})
	}
	b.WriteString("]\n")
	// other constructs that can panic at run time: explicit panic calls, single-valued type assertions, integer division / shifts
	b.WriteString("/-- explicit `panic` calls, `x.(T)` without comma-ok, `/ % << >>` in dotenv/parser.go: (function, what) -/\n")
	b.WriteString("def dotenv_otherPanicSources : List (String × String) := [")
	nOther := 0
	for _, d := range f.Decls {
		fd, ok := d.(*ast.FuncDecl)
		if !ok || fd.Body == nil {
			continue
		}
		commaOK := map[ast.Node]bool{}
		ast.Inspect(fd.Body, func(n ast.Node) bool {
			if as, ok := n.(*ast.AssignStmt); ok && len(as.Lhs) == 2 && len(as.Rhs) == 1 {
				commaOK[as.Rhs[0]] = true
			}
			return true
		})
		ast.Inspect(fd.Body, func(n ast.Node) bool {
			what := ""
			switch v := n.(type) {
			case *ast.CallExpr:
				if id, ok := v.Fun.(*ast.Ident); ok && id.Name == "panic" {
					what = "panic-call"
				}
			case *ast.TypeAssertExpr:
				if !commaOK[n] && v.Type != nil {
					what = "type-assert " + src(n)
				}
			case *ast.BinaryExpr:
				switch v.Op {
				case token.QUO, token.REM, token.SHL, token.SHR:
					what = "arith " + src(n)
				}
			}
			if what != "" {
				if nOther > 0 {
					b.WriteString(", ")
				}
				nOther++
				fmt.Fprintf(&b, "(%s, %s)", leanStr(fd.Name.Name), leanStr(what))
			}
			return true
		})
	}
	b.WriteString("]\n")
	b.WriteString("\nend CV.Gen\n")
	fmt.Fprintf(logw, "dotenv consts: isSpace %d runes, key switch %d case lists\n", len(flat), len(lk))
	return "Dotenv.lean", b.String()
}
