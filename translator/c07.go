package main

// Facts for C07 (Gen/C07Callers.lean): the code *around* template.Substitute that the C07 models and oracles
// were written against — the mapping closure dotenv.expandVariables hands to Substitute (lookup first, a hit
// counts whatever the value; then the earlier lines of the file), the way interpolation.Interpolate calls
// Substitute, and the statements of getFirstBraceClosingIndex (the brace counter, `firstCloseGo` in the model).
// Each fact is the go/printer text of a statement with white space squashed.

import (
	"go/ast"
	"strings"
)

func init() { extraGenerators = append(extraGenerators, genC07Callers) }

func c07Squash(s string) string { return strings.Join(strings.Fields(s), " ") }

func c07Stmts(l []ast.Stmt) string {
	var q []string
	for _, s := range l {
		q = append(q, leanStr(c07Squash(src(s))))
	}
	return "[" + strings.Join(q, ",\n   ") + "]"
}

func genC07Callers() (string, string) {
	var b strings.Builder
	b.WriteString(header + "namespace CV.Gen\n\n")

	// dotenv.expandVariables: the function literal passed to template.Substitute
	mapping := []ast.Stmt{}
	substCall := "unknown"
	if fd := findFunc(parse("dotenv/godotenv.go"), "expandVariables"); fd != nil {
		ast.Inspect(fd.Body, func(n ast.Node) bool {
			if call, ok := n.(*ast.CallExpr); ok && src(call.Fun) == "template.Substitute" && len(call.Args) == 2 {
				substCall = c07Squash(src(call.Args[0]))
				if fl, ok := call.Args[1].(*ast.FuncLit); ok {
					mapping = fl.Body.List
				}
				return false
			}
			return true
		})
	}
	b.WriteString("/-- dotenv.expandVariables: first argument of its call of template.Substitute -/\n")
	b.WriteString("def c07_dotenv_substitute_arg : String := " + leanStr(substCall) + "\n")
	b.WriteString("/-- dotenv.expandVariables: statements of the mapping closure handed to template.Substitute -/\n")
	b.WriteString("def c07_dotenv_mapping : List String :=\n  " + c07Stmts(mapping) + "\n\n")

	// interpolation: how Substitute is chosen and called
	var interp []string
	inf := parse("interpolation/interpolation.go")
	for _, fn := range []string{"Interpolate", "recursiveInterpolate"} {
		if fd := findFunc(inf, fn); fd != nil {
			ast.Inspect(fd.Body, func(n ast.Node) bool {
				if as, ok := n.(*ast.AssignStmt); ok && strings.Contains(src(as), "Substitute") {
					interp = append(interp, leanStr(c07Squash(src(as))))
				}
				return true
			})
		}
	}
	b.WriteString("/-- interpolation.Interpolate / recursiveInterpolate: every assignment that mentions Substitute, in source order -/\n")
	b.WriteString("def c07_interpolate_substitute : List String :=\n  [" + strings.Join(interp, ",\n   ") + "]\n\n")

	// template.getFirstBraceClosingIndex
	var fc []ast.Stmt
	if fd := findFunc(parse("template/template.go"), "getFirstBraceClosingIndex"); fd != nil {
		fc = fd.Body.List
	}
	b.WriteString("/-- template.getFirstBraceClosingIndex: its statements -/\n")
	b.WriteString("def c07_firstBraceClosingIndex : List String :=\n  " + c07Stmts(fc) + "\n\n")
	b.WriteString("end CV.Gen\n")
	return "C07Callers.lean", b.String()
}
