package main

// Gen/FanoutSource.lean — the statement skeleton of types.(*Project).WithServicesTransform, the function that
// Model/Fanout.lean models by hand: the body as printed by go/printer with the `verifYield(…)` hook calls and all
// comments removed, one trimmed line per entry.  Props/C19.lean compares it with the skeleton the model was written
// against (`fanout_source_is_modelled`, by `decide`): any edit of the function — channel capacity, order of the read
// and the collector start, the select, the error test before the send — breaks that obligation and sends the reader
// back to the model.

import (
	"bytes"
	"fmt"
	"go/ast"
	"go/printer"
	"strings"
)

func c19IsYield(s ast.Stmt) bool {
	es, ok := s.(*ast.ExprStmt)
	if !ok {
		return false
	}
	c, ok := es.X.(*ast.CallExpr)
	if !ok {
		return false
	}
	id, ok := c.Fun.(*ast.Ident)
	return ok && id.Name == "verifYield"
}

func c19StripYields(list []ast.Stmt) []ast.Stmt {
	var out []ast.Stmt
	for _, s := range list {
		if !c19IsYield(s) {
			out = append(out, s)
		}
	}
	return out
}

func c19Skeleton(rel, fn string) []string {
	f := parse(rel)
	for _, d := range f.Decls {
		fd, ok := d.(*ast.FuncDecl)
		if !ok || fd.Name.Name != fn || fd.Body == nil {
			continue
		}
		fd.Doc = nil
		ast.Inspect(fd, func(n ast.Node) bool {
			switch x := n.(type) {
			case *ast.BlockStmt:
				x.List = c19StripYields(x.List)
			case *ast.CaseClause:
				x.Body = c19StripYields(x.Body)
			case *ast.CommClause:
				x.Body = c19StripYields(x.Body)
			}
			return true
		})
		var b bytes.Buffer
		printer.Fprint(&b, fset, fd)
		var lines []string
		for _, l := range strings.Split(b.String(), "\n") {
			l = strings.Join(strings.Fields(l), " ")
			if l != "" {
				lines = append(lines, l)
			}
		}
		return lines
	}
	return []string{"unknown: " + rel + ":" + fn}
}

func init() {
	extraGenerators = append(extraGenerators, func() (string, string) {
		var b strings.Builder
		b.WriteString(header + "namespace CV.Gen\n\n")
		lines := c19Skeleton("types/project.go", "WithServicesTransform")
		b.WriteString("/-- types/project.go: `WithServicesTransform` without hook calls and comments, one trimmed line per entry -/\n")
		b.WriteString("def fanoutSource : List String := [\n")
		for i, l := range lines {
			if i > 0 {
				b.WriteString(",\n")
			}
			b.WriteString("  " + leanStr(l))
		}
		b.WriteString("]\n\nend CV.Gen\n")
		fmt.Fprintf(logw, "fanout source skeleton: %d lines\n", len(lines))
		return "FanoutSource.lean", b.String()
	})
}
