package main

// Facts for property C13, regenerated from the source on every run (Gen/C13Facts.lean):
// the *skeleton* of graph/traversal.go — the synchronisation-relevant operations of walk, visit, ready, enter, done
// and skip in source order (yield hooks, errgroup calls, channel operations, status reads and writes, the counter).
// The labelled transition system Model/Trav.lean was written against this skeleton; Props/C13.lean states it as a
// literal, so any edit that reorders, removes or adds one of these operations (status written after the hand-off,
// another semaphore limit, another channel capacity, a dropped wait …) breaks an obligation before any schedule is tried.

import (
	"fmt"
	"go/ast"
	"go/token"
	"strings"
)

func init() { extraGenerators = append(extraGenerators, genC13Facts) }

var c13Calls = map[string]bool{
	"eg.Go": true, "eg.Wait": true, "t.ready": true, "t.enter": true, "t.done": true, "t.skip": true, "t.visitor": true,
	"t.visit": true, "close": true, "errgroup.WithContext": true, "t.mu.Lock": true, "t.mu.Unlock": true,
	"t.extremityNodes": true, "t.adjacentNodes": true, "slices.Contains": true, "node.descendents": true,
}

func c13Skeleton(f *ast.File, fn string) []string { return c13SkeletonX(f, fn, nil, nil) }

// round 5: the glue around walk (services.go, graph.go, cycle.go) — more call names and assignment targets, without
// changing the skeletons of traversal.go
var c13GlueCalls = map[string]bool{
	"newGraph": true, "newTraversal": true, "walk": true, "option": true, "g.addVertex": true, "g.checkCycle": true,
	"searchCycle": true, "utils.MapKeys": true, "slices.Index": true, "fmt.Errorf": true, "append": true,
}
var c13GlueLhs = []string{"src.children[", "dest.parents[", "g.vertices[", "res", "err", "src", "names", "ch"}

func c13SkeletonX(f *ast.File, fn string, moreCalls map[string]bool, moreLhs []string) []string {
	var out []string
	for _, d := range f.Decls {
		fd, ok := d.(*ast.FuncDecl)
		if !ok || fd.Name.Name != fn || fd.Body == nil {
			continue
		}
		ast.Inspect(fd.Body, func(n ast.Node) bool {
			switch x := n.(type) {
			case *ast.CallExpr:
				name := src(x.Fun)
				switch {
				case name == "verifYield" && len(x.Args) > 0:
					out = append(out, "yield "+strings.Trim(src(x.Args[0]), "\""))
				case name == "eg.SetLimit" || name == "make":
					var a []string
					for _, e := range x.Args {
						a = append(a, src(e))
					}
					out = append(out, name+"("+strings.Join(a, ", ")+")")
				case c13Calls[name] || moreCalls[name]:
					out = append(out, name)
				}
			case *ast.SendStmt:
				out = append(out, "send "+src(x.Chan))
			case *ast.UnaryExpr:
				if x.Op == token.ARROW {
					out = append(out, "recv "+src(x.X))
				}
			case *ast.IncDecStmt:
				out = append(out, src(x))
			case *ast.IfStmt:
				if x.Init != nil {
					out = append(out, "if "+src(x.Init)+"; "+src(x.Cond))
				} else {
					out = append(out, "if "+src(x.Cond))
				}
			case *ast.ReturnStmt:
				var a []string
				for _, e := range x.Results {
					a = append(a, src(e))
				}
				out = append(out, strings.TrimSpace("return "+strings.Join(a, ", ")))
			case *ast.RangeStmt:
				out = append(out, "range "+src(x.X))
			case *ast.AssignStmt:
				// writes to the status / result maps and the initial value of the counter
				l := src(x.Lhs[0])
				if strings.HasPrefix(l, "t.status[") || strings.HasPrefix(l, "t.results[") || l == "expect" || l == "depends" {
					out = append(out, l+" "+x.Tok.String()+" "+src(x.Rhs[0]))
				} else {
					for _, p := range moreLhs {
						if l == p || (strings.HasSuffix(p, "[") && strings.HasPrefix(l, p)) {
							out = append(out, l+" "+x.Tok.String()+" "+src(x.Rhs[0]))
							break
						}
					}
				}
			}
			return true
		})
	}
	return out
}

func genC13Facts() (string, string) {
	var b strings.Builder
	b.WriteString(header + "namespace CV.Gen\n\n")
	f := parse("graph/traversal.go")
	total := 0
	for _, fn := range []string{"walk", "visit", "ready", "enter", "done", "skip", "extremityNodes", "adjacentNodes"} {
		sk := c13Skeleton(f, fn)
		total += len(sk)
		fmt.Fprintf(&b, "/-- graph/traversal.go `%s`: synchronisation-relevant operations in source order -/\ndef c13_%s : List String := [\n  %s]\n\n",
			fn, fn, strings.Join(quoteAll(sk), ",\n  "))
	}
	g := parse("graph/graph.go")
	fmt.Fprintf(&b, "/-- graph/graph.go `descendents` -/\ndef c13_descendents : List String := [%s]\n", joinLean(c13Skeleton(g, "descendents")))
	for _, file := range []struct {
		path string
		fns  []string
	}{{"graph/services.go", []string{"CollectInDependencyOrder", "newGraph"}}, {"graph/graph.go", []string{"roots", "leaves"}}, {"graph/cycle.go", []string{"checkCycle", "searchCycle"}}} {
		pf := parse(file.path)
		for _, fn := range file.fns {
			sk := c13SkeletonX(pf, fn, c13GlueCalls, c13GlueLhs)
			total += len(sk)
			fmt.Fprintf(&b, "\n/-- %s `%s`: operations in source order -/\ndef c13_%s : List String := [\n  %s]\n", file.path, fn, fn, strings.Join(quoteAll(sk), ",\n  "))
		}
	}
	b.WriteString("\nend CV.Gen\n")
	fmt.Fprintf(logw, "C13 facts: %d skeleton entries of graph/traversal.go\n", total)
	return "C13Facts.lean", b.String()
}
