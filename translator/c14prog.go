package main

// c14prog.go — C14: print the *statement skeleton* of the Project derivations of types/project.go in the
// statement language of lean/ComposeVerif/Model/HeapProg.lean → Gen/C14Progs.lean.
//
// The Lean side renders the hand-written heap programs (Model/Derivations.lean) with `renderL`; the theorem
// `programs_are_source` (Props/C14Deriv.lean) obliges the two texts to be equal, so a change of a derivation's
// statements (a store added, a loop over another map, the receiver read where the copy was, a reordering) breaks the
// obligation until the program is re-aligned.
//
// Translation (everything that only computes names, sets of names, booleans or errors is *pure* and omitted):
//
//   x := e.deepCopy()                       x=copy(e);
//   x := T{}              (model map type)  x=make;
//   x.F = T{} / slices.Clone(pure)          tmpF=make; / tmpF=slice;   x.F:=tmpF;
//   x.F = e      x a pointer                x.F:=e;
//   x.F = e      x a struct-valued local    x=with(x.F=e);
//   m[k] = e                                m[_]:=e;
//   delete(m, k)                            delete(m);
//   for k, v := range m                     for k,v in m{…}          (a loop whose body is pure is omitted)
//   for k := range <pure>                   for k in pure{…}
//   if v, ok := m[k]; ok {B}                if{v=m[_];B}else{}
//   if c { …; return … }  rest              if{…}else{rest}
//   if … { return nil, err }                fail;
//   return x[, nil]                         result=x;
//   a statement calling a modelled method   call(<source text of the statement>);
//   range over service.EnvFiles/LabelFiles  opaque(<range expression>);     (reading files: outside the model)
//
// Anything else is `unknown(<source>)`, which no hand-written program renders.

import (
	"fmt"
	"go/ast"
	"go/token"
	"strings"
)

func init() { extraGenerators = append(extraGenerators, genC14Progs) }

// methods whose calls are `call(…)` nodes: other derivations and the helpers the programs expand by hand
var c14Modelled = map[string]bool{
	"WithProfiles": true, "WithServicesDisabled": true, "WithServicesEnvironmentResolved": true, "WithServicesEnabled": true,
	"WithSelectedServices": true, "WithServicesTransform": true, "AllServices": true,
	"Resolve": true, "OverrideBy": true, "ToMappingWithEquals": true, "NewLabelsFromMappingWithEquals": true,
}

type c14Tr struct {
	a        *escAnalysis
	fd       *ast.FuncDecl
	pureUsed map[string]bool // model-typed locals every use of which is a pure selection (e.g. service.Profiles...)
}

func (t *c14Tr) pureType(e ast.Expr) bool {
	if e == nil {
		return false
	}
	switch v := t.a.resolve(e).(type) {
	case *ast.Ident:
		return scalarIdents[v.Name] || v.Name == "error"
	case *ast.ArrayType:
		return t.pureType(v.Elt)
	case *ast.MapType:
		if st, ok := v.Value.(*ast.StructType); ok && len(st.Fields.List) == 0 {
			return true
		}
		return false
	case *ast.FuncType, *ast.ChanType:
		return true
	case *ast.SelectorExpr:
		s := src(v)
		return scalarSelectors[s] || strings.HasPrefix(s, "utils.") || strings.HasPrefix(s, "dotenv.") || strings.HasPrefix(s, "errgroup.") || strings.HasPrefix(s, "context.")
	case *ast.IndexExpr: // generic instantiation such as utils.Set[string]
		return t.pureType(v.X)
	}
	return false
}

// pureExpr: the value is names / booleans / errors (its static type is pure, or it comes from package utils / sort / len)
func (t *c14Tr) pureExpr(e ast.Expr) bool {
	switch v := e.(type) {
	case *ast.BasicLit, *ast.BinaryExpr, *ast.FuncLit:
		return true
	case *ast.Ident:
		if v.Name == "nil" || v.Name == "true" || v.Name == "false" {
			return true
		}
	case *ast.CallExpr:
		if id, ok := v.Fun.(*ast.Ident); ok {
			switch id.Name {
			case "len", "cap":
				return true
			case "append":
				return len(v.Args) > 0 && t.pureExpr(v.Args[0])
			}
		}
		if sel, ok := v.Fun.(*ast.SelectorExpr); ok {
			if x, ok := sel.X.(*ast.Ident); ok && (x.Name == "utils" || x.Name == "sort" || x.Name == "errgroup" || x.Name == "context" || x.Name == "fmt") {
				return true
			}
		}
		if ix, ok := v.Fun.(*ast.IndexExpr); ok { // utils.NewSet[string]()
			return t.pureExpr(&ast.CallExpr{Fun: ix.X})
		}
	case *ast.CompositeLit:
		return t.pureType(v.Type)
	}
	return t.pureType(t.a.typeOf(e))
}

func (t *c14Tr) callsModelled(n ast.Node) bool {
	found := false
	ast.Inspect(n, func(m ast.Node) bool {
		if c, ok := m.(*ast.CallExpr); ok {
			switch f := c.Fun.(type) {
			case *ast.SelectorExpr:
				if c14Modelled[f.Sel.Name] {
					found = true
				}
			case *ast.Ident:
				if c14Modelled[f.Name] {
					found = true
				}
			}
		}
		return !found
	})
	return found
}

// expr renders a model-valued expression
func (t *c14Tr) expr(e ast.Expr) string {
	switch v := e.(type) {
	case *ast.Ident:
		return v.Name
	case *ast.ParenExpr:
		return t.expr(v.X)
	case *ast.SelectorExpr:
		return t.expr(v.X) + "." + v.Sel.Name
	case *ast.IndexExpr:
		return t.expr(v.X) + "[_]"
	}
	if t.pureExpr(e) {
		return "<pure>"
	}
	return "unknown(" + norm(src(e)) + ")"
}

func (t *c14Tr) isMapLit(e ast.Expr) bool {
	cl, ok := e.(*ast.CompositeLit)
	if !ok || len(cl.Elts) != 0 || t.pureType(cl.Type) {
		return false
	}
	_, isMap := t.a.resolve(cl.Type).(*ast.MapType)
	return isMap
}

func (t *c14Tr) isPureSlice(e ast.Expr) bool {
	c, ok := e.(*ast.CallExpr)
	if !ok {
		return false
	}
	s := norm(src(c.Fun))
	if s == "slices.Clone" && len(c.Args) == 1 {
		return t.pureExpr(c.Args[0])
	}
	return s == "append" && t.pureExpr(e)
}

func (t *c14Tr) isPointer(e ast.Expr) bool {
	_, ok := t.a.resolve(t.a.typeOf(e)).(*ast.StarExpr)
	return ok
}

func unknownStmt(s ast.Stmt) string { return "unknown(" + norm(src(s)) + ");" }

func (t *c14Tr) bindDefine(v *ast.AssignStmt) {
	if v.Tok != token.DEFINE {
		return
	}
	for i, l := range v.Lhs {
		id, ok := l.(*ast.Ident)
		if !ok || id.Name == "_" {
			continue
		}
		switch {
		case len(v.Rhs) == len(v.Lhs):
			t.a.env[id.Name] = t.a.typeOf(v.Rhs[i])
		case i == 0 && len(v.Rhs) == 1:
			t.a.env[id.Name] = t.a.typeOf(v.Rhs[0])
		default:
			t.a.env[id.Name] = ast.NewIdent("error")
		}
	}
}

func (t *c14Tr) assign(v *ast.AssignStmt) string {
	defer t.bindDefine(v)
	if t.callsModelled(v) {
		return "call(" + norm(src(v)) + ");"
	}
	if len(v.Lhs) == 1 && len(v.Rhs) == 1 {
		l, r := v.Lhs[0], v.Rhs[0]
		// x := e.deepCopy()
		if c, ok := r.(*ast.CallExpr); ok {
			if sel, ok := c.Fun.(*ast.SelectorExpr); ok && sel.Sel.Name == "deepCopy" && len(c.Args) == 0 {
				return t.expr(l) + "=copy(" + t.expr(sel.X) + ");"
			}
		}
		switch lv := l.(type) {
		case *ast.Ident:
			if t.isMapLit(r) {
				return lv.Name + "=make;"
			}
			if src(r) == "nil" && !t.pureType(t.a.env[lv.Name]) && t.a.env[lv.Name] != nil {
				return lv.Name + "=nil;"
			}
			if t.pureUsed[lv.Name] || t.pureExpr(r) || (v.Tok == token.ASSIGN && t.pureType(t.a.env[lv.Name])) {
				return ""
			}
			return lv.Name + "=" + t.expr(r) + ";"
		case *ast.IndexExpr:
			if t.pureType(t.a.typeOf(lv.X)) {
				return ""
			}
			return t.expr(lv.X) + "[_]:=" + t.expr(r) + ";"
		case *ast.SelectorExpr:
			F := lv.Sel.Name
			rhs, pre := "", ""
			switch {
			case t.isMapLit(r):
				pre, rhs = "tmp"+F+"=make;", "tmp"+F
			case t.isPureSlice(r):
				pre, rhs = "tmp"+F+"=slice;", "tmp"+F
			case src(r) == "nil":
				rhs = "nil"
			default:
				rhs = t.expr(r)
			}
			if t.isPointer(lv.X) {
				return pre + t.expr(lv.X) + "." + F + ":=" + rhs + ";"
			}
			if id, ok := lv.X.(*ast.Ident); ok {
				return pre + id.Name + "=with(" + id.Name + "." + F + "=" + rhs + ");"
			}
		}
		return unknownStmt(v)
	}
	// several values: pure when every target is pure
	for _, l := range v.Lhs {
		id, ok := l.(*ast.Ident)
		if !ok {
			return unknownStmt(v)
		}
		if id.Name == "_" {
			continue
		}
		var ty ast.Expr
		if len(v.Rhs) == 1 {
			ty = t.a.typeOf(v.Rhs[0])
		}
		if !(t.pureExpr(v.Rhs[0]) || t.pureType(ty) || t.pureUsed[id.Name]) && l == v.Lhs[0] {
			return unknownStmt(v)
		}
	}
	return ""
}

// endsInReturn: the block's last statement is a return
func endsInReturn(b *ast.BlockStmt) bool {
	if len(b.List) == 0 {
		return false
	}
	_, ok := b.List[len(b.List)-1].(*ast.ReturnStmt)
	return ok
}

func (t *c14Tr) block(stmts []ast.Stmt) string {
	var b strings.Builder
	for i, s := range stmts {
		switch v := s.(type) {
		case *ast.AssignStmt:
			b.WriteString(t.assign(v))
		case *ast.DeclStmt:
			if gd, ok := v.Decl.(*ast.GenDecl); ok && gd.Tok == token.VAR {
				for _, sp := range gd.Specs {
					vs := sp.(*ast.ValueSpec)
					for _, n := range vs.Names {
						t.a.env[n.Name] = vs.Type
					}
					if !t.pureType(vs.Type) {
						b.WriteString(unknownStmt(s))
					}
				}
			} else if ok && gd.Tok == token.TYPE {
				// local type declaration
			} else {
				b.WriteString(unknownStmt(s))
			}
		case *ast.ExprStmt:
			c, ok := v.X.(*ast.CallExpr)
			if !ok {
				b.WriteString(unknownStmt(s))
				continue
			}
			fn := norm(src(c.Fun))
			switch {
			case fn == "delete" && len(c.Args) == 2:
				if !t.pureType(t.a.typeOf(c.Args[0])) {
					b.WriteString("delete(" + t.expr(c.Args[0]) + ");")
				}
			case fn == "verifYield" || strings.HasPrefix(fn, "sort."):
			case t.callsModelled(v):
				b.WriteString("call(" + norm(src(v)) + ");")
			case t.pureExpr(c) || strings.HasSuffix(fn, ".Add"):
				// set.Add(name) and the like: pure
				if sel, ok := c.Fun.(*ast.SelectorExpr); ok && !t.pureType(t.a.typeOf(sel.X)) && !t.pureExpr(c) {
					b.WriteString(unknownStmt(s))
				}
			default:
				b.WriteString(unknownStmt(s))
			}
		case *ast.IfStmt:
			then := ""
			if as, ok := v.Init.(*ast.AssignStmt); ok {
				// v, ok := m[k]
				if len(as.Lhs) == 2 && len(as.Rhs) == 1 {
					if ix, ok := as.Rhs[0].(*ast.IndexExpr); ok {
						if id, ok := as.Lhs[0].(*ast.Ident); ok && id.Name != "_" && !t.pureType(t.a.typeOf(ix.X)) {
							then = id.Name + "=" + t.expr(ix) + ";"
						}
						t.bindDefine(as)
					} else {
						b.WriteString(unknownStmt(as))
					}
				} else {
					then = t.assign(as)
				}
			}
			// if … { return nil, err }
			if len(v.Body.List) == 1 && v.Else == nil {
				if r, ok := v.Body.List[0].(*ast.ReturnStmt); ok && len(r.Results) > 0 && src(r.Results[0]) == "nil" {
					b.WriteString("fail;")
					continue
				}
			}
			if v.Else == nil && endsInReturn(v.Body) {
				b.WriteString("if{" + then + t.block(v.Body.List) + "}else{" + t.block(stmts[i+1:]) + "}")
				return b.String()
			}
			els := ""
			switch e := v.Else.(type) {
			case *ast.BlockStmt:
				els = t.block(e.List)
			case *ast.IfStmt:
				els = t.block([]ast.Stmt{e})
			}
			body := then + t.block(v.Body.List)
			if body == "" && els == "" {
				continue
			}
			b.WriteString("if{" + body + "}else{" + els + "}")
		case *ast.RangeStmt:
			xs := norm(src(v.X))
			if strings.HasSuffix(xs, ".EnvFiles") || strings.HasSuffix(xs, ".LabelFiles") {
				b.WriteString("opaque(" + xs + ");")
				continue
			}
			name := func(e ast.Expr) string {
				if id, ok := e.(*ast.Ident); ok {
					return id.Name
				}
				return "_"
			}
			xt := t.a.typeOf(v.X)
			pre, over := "", ""
			if c, ok := v.X.(*ast.CallExpr); ok && t.callsModelled(c) {
				// range over the map a modelled helper returns: named after the variable the helper returns
				pre = "call(" + xs + ");"
				over = "all"
				if sel, ok := c.Fun.(*ast.SelectorExpr); ok {
					if fd, ok := t.a.g.methods["Project."+sel.Sel.Name]; ok && fd.Body != nil && len(fd.Body.List) > 0 {
						if r, ok := fd.Body.List[len(fd.Body.List)-1].(*ast.ReturnStmt); ok && len(r.Results) == 1 {
							over = norm(src(r.Results[0]))
						}
					}
					if fd, ok := t.a.g.methods["Project."+sel.Sel.Name]; ok && fd.Type.Results != nil {
						xt = fd.Type.Results.List[0].Type
					}
				}
			}
			var kt, vt ast.Expr
			switch ct := t.a.resolve(xt).(type) {
			case *ast.MapType:
				kt, vt = ct.Key, ct.Value
			case *ast.ArrayType:
				kt, vt = ast.NewIdent("int"), ct.Elt
			}
			if v.Tok == token.DEFINE {
				if id, ok := v.Key.(*ast.Ident); ok {
					t.a.env[id.Name] = kt
				}
				if id, ok := v.Value.(*ast.Ident); ok {
					t.a.env[id.Name] = vt
				}
			}
			body := t.block(v.Body.List)
			if body == "" {
				continue
			}
			if over == "" && (t.pureType(xt) || t.pureExpr(v.X)) {
				k := name(v.Key)
				if _, isSlice := t.a.resolve(xt).(*ast.ArrayType); isSlice || k == "_" {
					k = name(v.Value)
				}
				b.WriteString("for " + k + " in pure{" + body + "}")
				continue
			}
			if over == "" {
				over = t.expr(v.X)
			}
			b.WriteString(pre + "for " + name(v.Key) + "," + name(v.Value) + " in " + over + "{" + body + "}")
		case *ast.ReturnStmt:
			if len(v.Results) == 0 {
				continue
			}
			r := v.Results[0]
			switch {
			case src(r) == "nil":
				b.WriteString("fail;")
			case t.callsModelled(r):
				b.WriteString("call(" + norm(src(v)) + ");")
			default:
				b.WriteString("result=" + t.expr(r) + ";")
			}
		case *ast.BranchStmt: // continue / break inside pure loops
		default:
			b.WriteString(unknownStmt(s))
		}
	}
	return b.String()
}

// pureUsedLocals: model-typed locals defined by `:=` every use of which selects a pure field (x.F of pure type)
func (t *c14Tr) pureUsedLocals() {
	t.pureUsed = map[string]bool{}
	// first pass: bind types by a dry translation
	defs := map[string]bool{}
	ast.Inspect(t.fd.Body, func(n ast.Node) bool {
		if as, ok := n.(*ast.AssignStmt); ok && as.Tok == token.DEFINE {
			for _, l := range as.Lhs {
				if id, ok := l.(*ast.Ident); ok {
					defs[id.Name] = true
				}
			}
		}
		return true
	})
	for name := range defs {
		if t.pureType(t.a.env[name]) || t.a.env[name] == nil {
			continue
		}
		ok, used := true, false
		var walk func(n ast.Node, parent ast.Node)
		var stack []ast.Node
		ast.Inspect(t.fd.Body, func(n ast.Node) bool {
			if n == nil {
				stack = stack[:len(stack)-1]
				return true
			}
			if id, isId := n.(*ast.Ident); isId && id.Name == name && len(stack) > 0 {
				switch par := stack[len(stack)-1].(type) {
				case *ast.SelectorExpr:
					if par.X == id {
						used = true
						if !t.pureType(t.a.fieldType(t.a.env[name], par.Sel.Name)) {
							ok = false
						}
					}
				case *ast.AssignStmt:
					isLhs := false
					for _, l := range par.Lhs {
						if l == ast.Expr(id) {
							isLhs = true
						}
					}
					if !isLhs {
						ok = false
					}
				default:
					ok = false
				}
			}
			stack = append(stack, n)
			return true
		})
		_ = walk
		if ok && used {
			t.pureUsed[name] = true
		}
	}
}

func c14Translate(g *cpGen, fd *ast.FuncDecl) string {
	a := &escAnalysis{g: g, method: fd.Name.Name, env: map[string]ast.Expr{}, tainted: map[string]bool{}}
	if fd.Recv != nil && len(fd.Recv.List[0].Names) == 1 {
		a.recv = fd.Recv.List[0].Names[0].Name
		a.env[a.recv] = fd.Recv.List[0].Type
	}
	for _, p := range fd.Type.Params.List {
		for _, nm := range p.Names {
			ty := p.Type
			if el, ok := ty.(*ast.Ellipsis); ok {
				ty = &ast.ArrayType{Elt: el.Elt}
			}
			a.env[nm.Name] = ty
		}
	}
	t := &c14Tr{a: a, fd: fd, pureUsed: map[string]bool{}}
	t.block(fd.Body.List) // dry run: binds the types of the locals
	t.pureUsedLocals()
	return t.block(fd.Body.List)
}

func genC14Progs() (string, string) {
	g := &cpGen{}
	g.collect(g.load())
	names := []string{"AllServices", "WithProfiles", "WithServicesEnabled", "WithServicesDisabled", "WithSelectedServices",
		"WithoutUnnecessaryResources", "WithServicesEnvironmentResolved", "WithServicesLabelsResolved"}
	var b strings.Builder
	b.WriteString(header + "namespace CV.Gen.C14Progs\n\n")
	b.WriteString("/-- statement skeleton of the Project methods the heap programs mirror (translator/c14prog.go) -/\ndef skeletons : List (String × String) := [")
	unknown := 0
	for i, n := range names {
		sk := "unknown(no such method)"
		if fd, ok := g.methods["Project."+n]; ok && fd.Body != nil {
			sk = c14Translate(g, fd)
		}
		unknown += strings.Count(sk, "unknown(")
		if i > 0 {
			b.WriteString(",")
		}
		fmt.Fprintf(&b, "\n  (%s, %s)", leanStr(n), leanStr(sk))
	}
	b.WriteString("]\n\n")
	// the functions that are mirrored by hand without a skeleton (goroutines, closures over a library, small helpers): their
	// normalised source text, so that a change is noticed
	texts := []struct{ key, typ, name string }{
		{"WithServicesTransform", "Project", "WithServicesTransform"}, {"WithImagesResolved", "Project", "WithImagesResolved"},
		{"withServices", "Project", "withServices"}, {"dependentsForService", "Project", "dependentsForService"},
		{"HasProfile", "ServiceConfig", "HasProfile"},
		{"MappingWithEquals.Resolve", "MappingWithEquals", "Resolve"}, {"MappingWithEquals.OverrideBy", "MappingWithEquals", "OverrideBy"},
		{"Labels.ToMappingWithEquals", "Labels", "ToMappingWithEquals"}, {"Labels.Add", "Labels", "Add"},
	}
	b.WriteString("/-- normalised source text of the functions mirrored by hand (verification yield calls removed) -/\ndef sources : List (String × String) := [")
	for i, tx := range texts {
		s := "missing"
		if fd, ok := g.methods[tx.typ+"."+tx.name]; ok {
			s = c14NormSrc(fd)
		}
		if i > 0 {
			b.WriteString(",")
		}
		fmt.Fprintf(&b, "\n  (%s, %s)", leanStr(tx.key), leanStr(s))
	}
	if fd, ok := g.funcs["NewLabelsFromMappingWithEquals"]; ok {
		fmt.Fprintf(&b, ",\n  (%s, %s)", leanStr("NewLabelsFromMappingWithEquals"), leanStr(c14NormSrc(fd)))
	}
	b.WriteString("]\n\n")
	// the functions behind the visit model (Model/HeapVisit.lean: walk / forEachService)
	b.WriteString("/-- normalised source text of the functions the visit model (Model/HeapVisit.lean) is written against -/\ndef visitSources : List (String × String) := [")
	vis := []struct{ key, typ, name string }{{"ForEachService", "Project", "ForEachService"}, {"withServices", "Project", "withServices"},
		{"getServicesByNames", "Project", "getServicesByNames"}, {"dependentsForService", "Project", "dependentsForService"},
		{"ServiceConfig.deepCopy", "ServiceConfig", "deepCopy"}}
	for i, tx := range vis {
		s := "missing"
		if fd, ok := g.methods[tx.typ+"."+tx.name]; ok {
			s = c14NormSrc(fd)
		}
		if i > 0 {
			b.WriteString(",")
		}
		fmt.Fprintf(&b, "\n  (%s, %s)", leanStr(tx.key), leanStr(s))
	}
	utilFuncs := map[string]*ast.FuncDecl{}
	if uf := parse("utils/collectionutils.go"); uf != nil {
		for _, d := range uf.Decls {
			if fd, ok := d.(*ast.FuncDecl); ok && fd.Recv == nil {
				utilFuncs[fd.Name.Name] = fd
			}
		}
	}
	for _, n := range []string{"MapsAppend", "MapKeys"} {
		s := "missing"
		if fd, ok := utilFuncs[n]; ok {
			s = c14NormSrc(fd)
		}
		fmt.Fprintf(&b, ",\n  (%s, %s)", leanStr("utils."+n), leanStr(s))
	}
	b.WriteString("]\n\n")
	c14GenApply(g, &b)
	b.WriteString("end CV.Gen.C14Progs\n")
	fmt.Fprintf(logw, "c14 programs: %d skeletons (%d unknown statements), %d mirrored sources\n", len(names), unknown, len(texts)+1)
	return "C14Progs.lean", b.String()
}

// c14NormSrc: the function's source without comments, white space normalised, verifYield(...) statements removed
func c14NormSrc(fd *ast.FuncDecl) string {
	cp := *fd
	cp.Doc = nil
	lines := strings.Split(src(&cp), "\n")
	var keep []string
	for _, l := range lines {
		tl := strings.TrimSpace(l)
		if strings.HasPrefix(tl, "verifYield(") || strings.HasPrefix(tl, "//") {
			continue
		}
		if i := strings.Index(tl, " //"); i >= 0 {
			tl = tl[:i]
		}
		keep = append(keep, tl)
	}
	return norm(strings.Join(keep, " "))
}
