package main

// Facts for property C05, regenerated from the source on every run (Gen/C05Facts.lean):
// the *skeleton* of loader/extends.go (ApplyExtends, applyServiceExtends, getExtendsBaseFromFile, deepClone) and of
// cycleTracker.Add (loader/loader.go) — the decision-relevant statements in source order: conditions, type-switch
// cases, returns with their error formats, the tracker / recursion / merge / clone calls, the writes into the services
// map and into the context, the options of the nested load.  Model/Extends.lean was written against this skeleton;
// Props/C05.lean states it as a literal (`extends_source_is_modelled`), so an edit that moves the tracker call, drops
// the clone, memoises under another key, changes what is deleted or how the extended file is loaded breaks an
// obligation before any input is tried.

import (
	"fmt"
	"go/ast"
	"strings"
)

func init() { extraGenerators = append(extraGenerators, genC05Facts) }

var c05Calls = map[string]bool{
	"applyServiceExtends": true, "getExtendsBaseFromFile": true, "tracker.Add": true, "deepClone": true,
	"override.ExtendService": true, "delete": true, "processor.Apply": true, "paths.ResolveRelativePaths": true,
	"loadYamlFile": true, "loader.Load": true, "loader.Dir": true, "loader.Accept": true, "opts.clone": true,
	"context.WithValue": true, "filepath.Dir": true, "errors.New": true, "opts.RemoteResourceLoaders": true,
}

func c05Skeleton(f *ast.File, fn string, recv string) []string {
	var out []string
	for _, d := range f.Decls {
		fd, ok := d.(*ast.FuncDecl)
		if !ok || fd.Name.Name != fn || fd.Body == nil {
			continue
		}
		if recv != "" && (fd.Recv == nil || !strings.Contains(src(fd.Recv.List[0].Type), recv)) {
			continue
		}
		ast.Inspect(fd.Body, func(n ast.Node) bool {
			switch x := n.(type) {
			case *ast.CallExpr:
				name := src(x.Fun)
				if c05Calls[name] {
					var a []string
					for _, e := range x.Args {
						a = append(a, src(e))
					}
					out = append(out, name+"("+strings.Join(a, ", ")+")")
				} else if name == "fmt.Errorf" && len(x.Args) > 0 {
					out = append(out, "errorf "+strings.Trim(src(x.Args[0]), "\""))
				}
			case *ast.IfStmt:
				if x.Init != nil {
					out = append(out, "if "+src(x.Init)+"; "+src(x.Cond))
				} else {
					out = append(out, "if "+src(x.Cond))
				}
			case *ast.TypeSwitchStmt:
				out = append(out, "typeswitch "+src(x.Assign))
			case *ast.CaseClause:
				var a []string
				for _, e := range x.List {
					a = append(a, src(e))
				}
				if len(a) == 0 {
					out = append(out, "default")
				} else {
					out = append(out, "case "+strings.Join(a, ", "))
				}
			case *ast.RangeStmt:
				out = append(out, "range "+src(x.X))
			case *ast.ReturnStmt:
				var a []string
				for _, e := range x.Results {
					if c, ok := e.(*ast.CallExpr); ok && (src(c.Fun) == "fmt.Errorf" || src(c.Fun) == "errors.New") {
						a = append(a, "<error>")
					} else {
						a = append(a, src(e))
					}
				}
				out = append(out, strings.TrimSpace("return "+strings.Join(a, ", ")))
			case *ast.AssignStmt:
				l := src(x.Lhs[0])
				if strings.HasPrefix(l, "services[") || strings.HasPrefix(l, "dict[") || strings.HasPrefix(l, "extendsOpts.") ||
					l == "ctx" || l == "filename" || l == "ref" || l == "file" || l == "cp[i]" || l == "cp[k]" || l == "post" ||
					l == "source" || l == "branch" || l == "ct.loaded" || l == "toAdd" || l == "tracker" || l == "base" || l == "merged" {
					r := src(x.Rhs[0])
					if c, ok := x.Rhs[0].(*ast.CallExpr); ok && c05Calls[src(c.Fun)] {
						r = src(c.Fun) + "(…)"
					}
					out = append(out, l+" "+x.Tok.String()+" "+r)
				}
			}
			return true
		})
	}
	return out
}

func genC05Facts() (string, string) {
	var b strings.Builder
	b.WriteString(header + "namespace CV.Gen\n\n")
	f := parse("loader/extends.go")
	total := 0
	for _, fn := range []string{"ApplyExtends", "applyServiceExtends", "getExtendsBaseFromFile", "deepClone"} {
		sk := c05Skeleton(f, fn, "")
		total += len(sk)
		fmt.Fprintf(&b, "/-- loader/extends.go `%s`: decision-relevant statements in source order -/\ndef c05_%s : List String := [\n  %s]\n\n",
			fn, fn, strings.Join(quoteAll(sk), ",\n  "))
	}
	g := parse("loader/loader.go")
	sk := c05Skeleton(g, "Add", "cycleTracker")
	total += len(sk)
	fmt.Fprintf(&b, "/-- loader/loader.go `cycleTracker.Add` -/\ndef c05_trackerAdd : List String := [\n  %s]\n", strings.Join(quoteAll(sk), ",\n  "))
	b.WriteString("\nend CV.Gen\n")
	fmt.Fprintf(logw, "C05 facts: %d skeleton entries of loader/extends.go and cycleTracker.Add\n", total)
	return "C05Facts.lean", b.String()
}
