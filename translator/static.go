package main

// Static facts for C02 (determinism): where does Go's randomised map iteration order, or
// package-level state, have a chance to reach a result?
//
//	Gen/Static.lean
//	  orderLeakSites   range-over-map statements whose body builds a sequence (append to / indexed
//	                   store into a slice declared outside the loop, string concatenation, Write* on
//	                   an outer builder) and which are not followed, in the same function, by a sort
//	                   of that sequence;
//	  earlyExitSites   range-over-map statements left by `break` or by a `return` that yields
//	                   something else than an error / zero value ("first match wins" sites);
//	  globalWrites     package-level variables assigned outside `init` (state surviving a load);
//	  mapRangeCount    number of range-over-map statements seen (diagnostic).
//
// Typed with go/types.  Only the packages of the module are type-checked (in dependency order, from
// source); every other import is replaced by an empty package and the resulting type errors are
// ignored — the facts below only need the types of compose-go's own expressions.  A ranged expression
// whose type could not be determined is reported in `untypedRangeSites` so that it cannot hide.

import (
	"fmt"
	"go/ast"
	"go/build"
	"go/parser"
	"go/token"
	"go/types"
	"os"
	"path/filepath"
	"regexp"
	"sort"
	"strings"
)

func init() { extraGenerators = append(extraGenerators, genStatic) }

type staticPkg struct {
	path  string // import path
	rel   string // directory relative to the repo
	files []*ast.File
	names []string // file names, parallel to files
	pkg   *types.Package
	info  *types.Info
}

type staticWorld struct {
	module string
	pkgs   map[string]*staticPkg // by import path
	fakes  map[string]*types.Package
}

func (w *staticWorld) Import(path string) (*types.Package, error) {
	if p, ok := w.pkgs[path]; ok {
		w.check(p)
		return p.pkg, nil
	}
	if f, ok := w.fakes[path]; ok {
		return f, nil
	}
	name := path
	if i := strings.LastIndex(name, "/"); i >= 0 {
		name = name[i+1:]
	}
	if regexp.MustCompile(`^v[0-9]+$`).MatchString(name) { // …/mapstructure/v2
		parts := strings.Split(path, "/")
		if len(parts) >= 2 {
			name = parts[len(parts)-2]
		}
	}
	name = strings.TrimSuffix(name, ".v3") // gopkg.in/yaml.v3
	name = strings.TrimPrefix(name, "go-")
	f := types.NewPackage(path, name)
	f.MarkComplete()
	w.fakes[path] = f
	return f, nil
}

func (w *staticWorld) check(p *staticPkg) {
	if p.pkg != nil {
		return
	}
	p.info = &types.Info{Types: map[ast.Expr]types.TypeAndValue{}, Defs: map[*ast.Ident]types.Object{}, Uses: map[*ast.Ident]types.Object{}}
	p.pkg = types.NewPackage(p.path, p.files[0].Name.Name) // placeholder against import cycles
	conf := types.Config{Importer: w, Error: func(error) {}, FakeImportC: true}
	pkg, _ := conf.Check(p.path, fset, p.files, p.info)
	if pkg != nil {
		p.pkg = pkg
	}
}

func loadWorld() *staticWorld {
	w := &staticWorld{pkgs: map[string]*staticPkg{}, fakes: map[string]*types.Package{}}
	mod, err := os.ReadFile(filepath.Join(repo, "go.mod"))
	if err != nil {
		fmt.Fprintf(os.Stderr, "translator: %v\n", err)
		os.Exit(1)
	}
	for _, l := range strings.Split(string(mod), "\n") {
		if strings.HasPrefix(l, "module ") {
			w.module = strings.TrimSpace(strings.TrimPrefix(l, "module "))
		}
	}
	ctxt := build.Default
	ctxt.BuildTags = []string{"verif"}
	ctxt.CgoEnabled = false
	filepath.Walk(repo, func(path string, fi os.FileInfo, err error) error {
		if err != nil {
			return nil
		}
		if fi.IsDir() {
			n := fi.Name()
			if path != repo && (strings.HasPrefix(n, ".") || n == "testdata" || n == "vendor") {
				return filepath.SkipDir
			}
			return nil
		}
		if !strings.HasSuffix(path, ".go") || strings.HasSuffix(path, "_test.go") {
			return nil
		}
		dir := filepath.Dir(path)
		if ok, _ := ctxt.MatchFile(dir, fi.Name()); !ok {
			return nil
		}
		rel, _ := filepath.Rel(repo, dir)
		f, err := parser.ParseFile(fset, path, nil, parser.SkipObjectResolution)
		if err != nil {
			fmt.Fprintf(os.Stderr, "translator: %v\n", err)
			os.Exit(1)
		}
		ip := w.module
		if rel != "." {
			ip = w.module + "/" + filepath.ToSlash(rel)
		}
		p := w.pkgs[ip]
		if p == nil {
			p = &staticPkg{path: ip, rel: filepath.ToSlash(rel)}
			w.pkgs[ip] = p
		}
		if len(p.files) > 0 && p.files[0].Name.Name != f.Name.Name {
			return nil // a second package in the same directory (package main helpers): ignore
		}
		p.files = append(p.files, f)
		p.names = append(p.names, fi.Name())
		return nil
	})
	var paths []string
	for ip := range w.pkgs {
		paths = append(paths, ip)
	}
	sort.Strings(paths)
	for _, ip := range paths {
		w.check(w.pkgs[ip])
	}
	return w
}

func funcName(fd *ast.FuncDecl) string {
	if fd.Recv != nil && len(fd.Recv.List) > 0 {
		t := fd.Recv.List[0].Type
		for {
			switch v := t.(type) {
			case *ast.StarExpr:
				t = v.X
				continue
			case *ast.IndexExpr:
				t = v.X
				continue
			case *ast.IndexListExpr:
				t = v.X
				continue
			case *ast.ParenExpr:
				t = v.X
				continue
			}
			break
		}
		return src(t) + "." + fd.Name.Name
	}
	return fd.Name.Name
}

// rootIdent returns the identifier at the root of x, x.f, x[i], *x …
func rootIdent(e ast.Expr) *ast.Ident {
	for {
		switch v := e.(type) {
		case *ast.Ident:
			return v
		case *ast.SelectorExpr:
			e = v.X
		case *ast.IndexExpr:
			e = v.X
		case *ast.StarExpr:
			e = v.X
		case *ast.ParenExpr:
			e = v.X
		case *ast.SliceExpr:
			e = v.X
		default:
			return nil
		}
	}
}

var sortCall = regexp.MustCompile(`^(sort\.\w+|slices\.Sort\w*|slices\.SortFunc|slices\.SortStableFunc)$`)

type siteRow struct{ file, fn, kind, target string }

func (r siteRow) key() string { return r.file + "|" + r.fn + "|" + r.kind + "|" + r.target }

func errorOnlyResult(e ast.Expr) bool {
	switch v := e.(type) {
	case *ast.Ident:
		return v.Name == "nil" || v.Name == "err" || v.Name == "false" || v.Name == "true"
	case *ast.BasicLit:
		return true
	case *ast.CallExpr:
		f := src(v.Fun)
		return strings.HasPrefix(f, "fmt.Errorf") || strings.HasPrefix(f, "errors.") || strings.HasSuffix(f, "Errorf") || strings.HasSuffix(f, "Wrap") || strings.HasSuffix(f, "Wrapf")
	case *ast.UnaryExpr: // &SomeError{…}
		if cl, ok := v.X.(*ast.CompositeLit); ok {
			return strings.Contains(src(cl.Type), "Err")
		}
	}
	return false
}

func genStatic() (string, string) {
	w := loadWorld()
	var leaks, exits, untyped, globals, pkgVars, carried []siteRow
	mapRanges := 0

	var paths []string
	for ip := range w.pkgs {
		paths = append(paths, ip)
	}
	sort.Strings(paths)
	for _, ip := range paths {
		p := w.pkgs[ip]
		if strings.HasPrefix(p.rel, "cmd") || strings.HasPrefix(p.rel, "ci") || strings.HasPrefix(p.rel, "scripts") {
			continue // command line tools around the library, not the library
		}
		declaredOutside := func(id *ast.Ident, rs *ast.RangeStmt) bool {
			obj := p.info.Uses[id]
			if obj == nil {
				obj = p.info.Defs[id]
			}
			if obj == nil {
				return true
			}
			return !(obj.Pos() >= rs.Pos() && obj.Pos() < rs.End())
		}
		for fi, f := range p.files {
			file := p.rel + "/" + p.names[fi]
			if strings.HasPrefix(p.names[fi], "verif_") {
				continue // the verification hooks themselves (build tag verif) are not part of the library
			}
			for _, d := range f.Decls {
				if gd, ok := d.(*ast.GenDecl); ok && gd.Tok == token.VAR {
					for _, sp := range gd.Specs {
						vs := sp.(*ast.ValueSpec)
						for _, id := range vs.Names {
							if id.Name == "_" {
								continue
							}
							kind := "unknown"
							if obj := p.info.Defs[id]; obj != nil && obj.Type() != nil {
								kind = typeKind(obj.Type())
							}
							pkgVars = append(pkgVars, siteRow{file, "", kind, id.Name})
						}
					}
				}
				fd, ok := d.(*ast.FuncDecl)
				if !ok || fd.Body == nil {
					continue
				}
				fn := funcName(fd)
				// ---- writes to package-level variables
				if fd.Name.Name != "init" || fd.Recv != nil {
					noteWrite := func(lhs ast.Expr, how string) {
						id := rootIdent(lhs)
						if id == nil {
							return
						}
						obj, _ := p.info.Uses[id].(*types.Var)
						if obj == nil || obj.Parent() != p.pkg.Scope() {
							return
						}
						globals = append(globals, siteRow{file, fn, how, id.Name})
					}
					ast.Inspect(fd.Body, func(n ast.Node) bool {
						switch v := n.(type) {
						case *ast.AssignStmt:
							if v.Tok != token.DEFINE {
								for _, l := range v.Lhs {
									noteWrite(l, "assign")
								}
							}
						case *ast.IncDecStmt:
							noteWrite(v.X, "assign")
						case *ast.CallExpr:
							if id, ok := v.Fun.(*ast.Ident); ok && id.Name == "delete" && len(v.Args) > 0 {
								noteWrite(v.Args[0], "delete")
							}
						}
						return true
					})
				}
				// ---- range over map
				ast.Inspect(fd.Body, func(n ast.Node) bool {
					rs, ok := n.(*ast.RangeStmt)
					if !ok {
						return true
					}
					tv, known := p.info.Types[rs.X]
					maybe := "" // "?" = operand of unknown type (comes from a package outside the module): analysed as if it were a map
					if !known || tv.Type == nil || tv.Type == types.Typ[types.Invalid] {
						untyped = append(untyped, siteRow{file, fn, "range", src(rs.X)})
						maybe = "?"
					} else {
						under := tv.Type.Underlying()
						if tp, ok := under.(*types.TypeParam); ok {
							under = tp.Constraint().Underlying()
						}
						if _, isMap := under.(*types.Map); !isMap {
							if _, isIface := under.(*types.Interface); !isIface || !strings.Contains(tv.Type.String(), "map") {
								return true
							}
						}
						mapRanges++
					}
					// loop-carried maps: a map declared in the function outside this loop that the body both reads and writes
					// under a key that does not mention the loop's key variable — what one iteration stores is seen by the
					// iterations that follow, so the result may depend on the iteration order (a cache, a "seen" set …)
					if maybe == "" {
						keyName := ""
						if id, ok := rs.Key.(*ast.Ident); ok && id.Name != "_" {
							keyName = id.Name
						}
						reads, writes := map[string]bool{}, map[string]bool{}
						noteIdx := func(ix *ast.IndexExpr, write bool) {
							id, ok := ix.X.(*ast.Ident)
							if !ok || !declaredOutside(id, rs) {
								return
							}
							obj, _ := p.info.Uses[id].(*types.Var)
							if obj == nil || obj.Parent() == p.pkg.Scope() || obj.Pos() < fd.Pos() || obj.Pos() > fd.End() {
								return // package-level tables and parameters' own maps are covered elsewhere
							}
							if t, ok := p.info.Types[ix.X]; !ok || t.Type == nil {
								return
							} else if _, isMap := t.Type.Underlying().(*types.Map); !isMap {
								return
							}
							if src(ix.X) == src(rs.X) {
								return // the ranged map itself (in-place update): rangeUpdate
							}
							mentions := false
							ast.Inspect(ix.Index, func(k ast.Node) bool {
								if kid, ok := k.(*ast.Ident); ok && keyName != "" && kid.Name == keyName {
									mentions = true
								}
								return true
							})
							if mentions {
								return
							}
							if write {
								writes[id.Name] = true
							} else {
								reads[id.Name] = true
							}
						}
						ast.Inspect(rs.Body, func(m ast.Node) bool {
							switch v := m.(type) {
							case *ast.AssignStmt:
								for _, l := range v.Lhs {
									if ix, ok := l.(*ast.IndexExpr); ok && v.Tok != token.DEFINE {
										noteIdx(ix, true)
									}
								}
								for _, r := range v.Rhs {
									ast.Inspect(r, func(k ast.Node) bool {
										if ix, ok := k.(*ast.IndexExpr); ok {
											noteIdx(ix, false)
										}
										return true
									})
								}
								return false
							case *ast.IndexExpr:
								noteIdx(v, false)
							}
							return true
						})
						var ms []string
						for m := range writes {
							if reads[m] {
								ms = append(ms, m)
							}
						}
						sort.Strings(ms)
						for _, m := range ms {
							carried = append(carried, siteRow{file, fn, "carried-map", m})
						}
					}
					// targets built inside the body
					targets := map[string]string{} // name → kind
					var walk func(n ast.Node, top bool)
					early := ""
					walk = func(n ast.Node, top bool) {
						ast.Inspect(n, func(m ast.Node) bool {
							switch v := m.(type) {
							case *ast.FuncLit:
								return false // a closure body runs when called, and its return/break are its own
							case *ast.ReturnStmt:
								for _, e := range v.Results {
									if !errorOnlyResult(e) {
										early = "return"
									}
								}
							case *ast.BranchStmt:
								if v.Tok == token.BREAK && v.Label != nil {
									early = "break"
								} else if v.Tok == token.BREAK && early == "" {
									// only a break that is not nested in an inner breakable statement leaves the loop (decided below)
									early = "break?"
								}
							case *ast.AssignStmt:
								for i, l := range v.Lhs {
									id := rootIdent(l)
									if id == nil || !declaredOutside(id, rs) {
										continue
									}
									// x = append(x, …)
									if i < len(v.Rhs) {
										if call, ok := v.Rhs[i].(*ast.CallExpr); ok {
											if fid, ok := call.Fun.(*ast.Ident); ok && fid.Name == "append" {
												targets[src(l)] = "append"
												continue
											}
										}
									}
									// x[i] = … on a slice / array
									if ix, ok := l.(*ast.IndexExpr); ok {
										if t, ok := p.info.Types[ix.X]; ok && t.Type != nil {
											switch t.Type.Underlying().(type) {
											case *types.Slice, *types.Array:
												targets[src(ix.X)] = "index-store"
											}
										}
									}
									// s += …
									if v.Tok == token.ADD_ASSIGN {
										if t, ok := p.info.Types[l]; ok && t.Type != nil {
											if b, ok := t.Type.Underlying().(*types.Basic); ok && b.Info()&types.IsString != 0 {
												targets[src(l)] = "string"
											}
										}
									}
								}
							case *ast.CallExpr:
								if sel, ok := v.Fun.(*ast.SelectorExpr); ok {
									switch sel.Sel.Name {
									case "WriteString", "WriteByte", "WriteRune", "Write":
										if id := rootIdent(sel.X); id != nil && declaredOutside(id, rs) {
											targets[src(sel.X)] = "string"
										}
									case "Fprintf", "Fprint", "Fprintln":
										if len(v.Args) > 0 {
											if id := rootIdent(unref(v.Args[0])); id != nil && declaredOutside(id, rs) {
												targets[src(unref(v.Args[0]))] = "string"
											}
										}
									}
								}
							}
							return true
						})
					}
					walk(rs.Body, true)
					if strings.HasPrefix(early, "break?") {
						// decide whether that break belongs to our loop: it does iff it is not inside an inner breakable statement
						if breakLeaves(rs) {
							early = "break"
						} else {
							early = ""
						}
					}
					if early != "" {
						exits = append(exits, siteRow{file, fn, maybe + early, src(rs.X)})
					}
					// is a target sorted later in the same function?
					var names []string
					for t := range targets {
						names = append(names, t)
					}
					sort.Strings(names)
					for _, t := range names {
						sorted := false
						ast.Inspect(fd.Body, func(m ast.Node) bool {
							call, ok := m.(*ast.CallExpr)
							if !ok || call.Pos() < rs.End() {
								return true
							}
							if sortCall.MatchString(src(call.Fun)) {
								for _, a := range call.Args {
									if strings.Contains(src(a), t) {
										sorted = true
									}
								}
							}
							return true
						})
						if !sorted {
							leaks = append(leaks, siteRow{file, fn, maybe + targets[t], t})
						}
					}
					return true
				})
			}
		}
	}

	uniq := func(l []siteRow) []siteRow {
		sort.Slice(l, func(i, j int) bool { return l[i].key() < l[j].key() })
		var out []siteRow
		for i, r := range l {
			if i == 0 || r.key() != l[i-1].key() {
				out = append(out, r)
			}
		}
		return out
	}
	var b strings.Builder
	b.WriteString(header + "namespace CV.Gen.Static\n\n")
	emit := func(name, doc string, rows []siteRow) {
		rows = uniq(rows)
		fmt.Fprintf(&b, "/-- %s; rows are (file, function, kind, target) -/\ndef %s : List (String × String × String × String) := [", doc, name)
		for i, r := range rows {
			if i > 0 {
				b.WriteString(",")
			}
			fmt.Fprintf(&b, "\n  (%s, %s, %s, %s)", leanStr(r.file), leanStr(r.fn), leanStr(r.kind), leanStr(r.target))
		}
		b.WriteString("]\n\n")
		fmt.Fprintf(logw, "static %s: %d rows\n", name, len(rows))
	}
	emit("orderLeakSites", "range-over-map statements that build a sequence / string from the iteration and do not sort it afterwards in the same function", leaks)
	emit("earlyExitSites", "range-over-map statements left by `break` or by a `return` of something else than an error or a literal", exits)
	emit("globalWrites", "package-level variables written outside `init`", globals)
	emit("loopCarriedMaps", "maps declared in a function that a range-over-map body both reads and writes under a key that does not mention the loop's key variable (state carried from one iteration to the next)", carried)
	emit("packageVars", "every package-level variable of the library (state that can outlive a load), with the kind of its type", pkgVars)
	emit("untypedRangeSites", "range statements whose operand could not be typed by the lenient checker (must stay empty or reviewed)", untyped)
	fmt.Fprintf(&b, "def mapRangeCount : Nat := %d\n\n", mapRanges)
	b.WriteString("end CV.Gen.Static\n")
	return "Static.lean", b.String()
}

// typeKind classifies the type of a package-level variable by what can be mutated through it.
func typeKind(t types.Type) string {
	switch u := t.Underlying().(type) {
	case *types.Map:
		return "map"
	case *types.Slice:
		return "slice"
	case *types.Pointer:
		return "pointer"
	case *types.Signature:
		return "func"
	case *types.Struct:
		return "struct"
	case *types.Interface:
		return "interface"
	case *types.Chan:
		return "chan"
	case *types.Array:
		return "array"
	case *types.Basic:
		if u.Kind() == types.Invalid {
			return "unknown"
		}
		return "basic"
	}
	return "unknown"
}

func unref(e ast.Expr) ast.Expr {
	if u, ok := e.(*ast.UnaryExpr); ok && u.Op == token.AND {
		return u.X
	}
	return e
}

// breakLeaves reports whether the body of rs contains an unlabelled `break` that is not nested in an inner
// for/range/switch/select (so that it leaves rs itself).
func breakLeaves(rs *ast.RangeStmt) bool {
	found := false
	var visit func(n ast.Node)
	visit = func(n ast.Node) {
		ast.Inspect(n, func(m ast.Node) bool {
			if m == nil || found {
				return false
			}
			switch v := m.(type) {
			case *ast.FuncLit:
				return false
			case *ast.RangeStmt, *ast.ForStmt, *ast.SwitchStmt, *ast.TypeSwitchStmt, *ast.SelectStmt:
				if m != n {
					return false
				}
			case *ast.BranchStmt:
				if v.Tok == token.BREAK && v.Label == nil {
					found = true
				}
			}
			return true
		})
	}
	visit(rs.Body)
	return found
}
