package main

// Gen/Globals.lean — static facts for C19 (DESIGN §6 C19, part (b)):
//
//   * every package-level `var` of the non-test packages (normal build: files constrained to the `verif` tag are skipped);
//   * every WRITE to one of them from a function body (assignment, op-assignment, ++/--, element or field store,
//     append-assignment, delete/clear/copy into it), with the writer, whether the writer is `init`, whether a
//     `X.Lock()` is held at that point of the function body, and whether the writer is reachable (name-based,
//     over-approximating call graph) from a load / fan-out / traversal entry point;
//   * every store through a PARAMETER whose type carries caller-owned data (types.ConfigDetails, types.ConfigFile,
//     types.Mapping, map[string]string) into an element of a map / slice (`p.F[k] = v`, `delete(p.F, k)`) in the
//     packages `loader` and `cli`.
//
// Purely syntactic (go/ast with the parser's own scope resolution).  Not seen: writes through pointers that were
// taken with `&G`, writes inside methods of the variable's own type (sync.Mutex, sync.Once, regexp caches).

import (
	"fmt"
	"go/ast"
	"go/build/constraint"
	"go/parser"
	"go/token"
	"os"
	"path/filepath"
	"sort"
	"strings"
)

type gPkg struct {
	dir     string // relative to the repo root ("." = root)
	name    string
	files   []*ast.File
	vars    map[string]*ast.ValueSpec
	specs   map[*ast.ValueSpec]bool
	funcs   map[string]*ast.FuncDecl // "Func" or "Type.Method"
	imports map[*ast.File]map[string]string
}

type gWrite struct {
	pkg, name, writer, kind string
	inInit, guarded, reach  bool
}

type gCallerWrite struct{ fn, param, expr string }

const modulePath = "github.com/compose-spec/compose-go/v2"

func fileInNormalBuild(f *ast.File) bool {
	for _, cg := range f.Comments {
		if cg.Pos() > f.Package {
			break
		}
		for _, c := range cg.List {
			if constraint.IsGoBuild(c.Text) {
				x, err := constraint.Parse(c.Text)
				if err != nil {
					return true
				}
				return x.Eval(func(tag string) bool {
					switch tag {
					case "linux", "amd64", "unix", "gc", "cgo":
						return true
					}
					return strings.HasPrefix(tag, "go1.")
				})
			}
		}
	}
	return true
}

func loadPkgs() []*gPkg {
	var pkgs []*gPkg
	filepath.Walk(repo, func(p string, info os.FileInfo, err error) error {
		if err != nil || !info.IsDir() {
			return nil
		}
		base := filepath.Base(p)
		if p != repo && (strings.HasPrefix(base, ".") || base == "testdata" || base == "vendor") {
			return filepath.SkipDir
		}
		ents, _ := os.ReadDir(p)
		pk := &gPkg{vars: map[string]*ast.ValueSpec{}, specs: map[*ast.ValueSpec]bool{}, funcs: map[string]*ast.FuncDecl{}, imports: map[*ast.File]map[string]string{}}
		pk.dir, _ = filepath.Rel(repo, p)
		for _, e := range ents {
			n := e.Name()
			if e.IsDir() || !strings.HasSuffix(n, ".go") || strings.HasSuffix(n, "_test.go") {
				continue
			}
			if strings.HasSuffix(n, "_windows.go") || strings.HasSuffix(n, "_darwin.go") {
				continue
			}
			f, err := parser.ParseFile(fset, filepath.Join(p, n), nil, parser.ParseComments)
			if err != nil {
				fmt.Fprintf(os.Stderr, "translator: %v\n", err)
				os.Exit(1)
			}
			if !fileInNormalBuild(f) {
				continue
			}
			pk.name = f.Name.Name
			pk.files = append(pk.files, f)
		}
		if len(pk.files) > 0 && pk.name != "main" {
			pkgs = append(pkgs, pk)
		}
		return nil
	})
	sort.Slice(pkgs, func(i, j int) bool { return pkgs[i].dir < pkgs[j].dir })
	for _, pk := range pkgs {
		for _, f := range pk.files {
			imp := map[string]string{}
			for _, is := range f.Imports {
				path := strings.Trim(is.Path.Value, `"`)
				if !strings.HasPrefix(path, modulePath) {
					continue
				}
				rel := strings.TrimPrefix(strings.TrimPrefix(path, modulePath), "/")
				if rel == "" {
					rel = "."
				}
				name := filepath.Base(path)
				if is.Name != nil {
					name = is.Name.Name
				}
				imp[name] = rel
			}
			pk.imports[f] = imp
			for _, d := range f.Decls {
				switch d := d.(type) {
				case *ast.GenDecl:
					if d.Tok != token.VAR {
						continue
					}
					for _, sp := range d.Specs {
						vs := sp.(*ast.ValueSpec)
						pk.specs[vs] = true
						for _, n := range vs.Names {
							if n.Name != "_" {
								pk.vars[n.Name] = vs
							}
						}
					}
				case *ast.FuncDecl:
					pk.funcs[funcKey(d)] = d
				}
			}
		}
	}
	return pkgs
}

func recvType(d *ast.FuncDecl) string {
	if d.Recv == nil || len(d.Recv.List) == 0 {
		return ""
	}
	t := d.Recv.List[0].Type
	for {
		switch x := t.(type) {
		case *ast.StarExpr:
			t = x.X
			continue
		case *ast.IndexExpr:
			t = x.X
			continue
		case *ast.Ident:
			return x.Name
		}
		return src(t)
	}
}

func funcKey(d *ast.FuncDecl) string {
	if r := recvType(d); r != "" {
		return r + "." + d.Name.Name
	}
	return d.Name.Name
}

// c19RootIdent strips element / field / deref / paren layers: G[k].f → G ; returns also whether an index layer was crossed.
func c19RootIdent(e ast.Expr) (id *ast.Ident, sel *ast.SelectorExpr, indexed bool, layers int) {
	for {
		switch x := e.(type) {
		case *ast.IndexExpr:
			indexed = true
			layers++
			e = x.X
		case *ast.SelectorExpr:
			if xi, ok := x.X.(*ast.Ident); ok && xi.Obj == nil {
				// possibly pkg.Var – the caller decides
				return xi, x, indexed, layers
			}
			layers++
			e = x.X
		case *ast.StarExpr:
			layers++
			e = x.X
		case *ast.ParenExpr:
			e = x.X
		case *ast.SliceExpr:
			layers++
			e = x.X
		case *ast.Ident:
			return x, nil, indexed, layers
		default:
			return nil, nil, indexed, layers
		}
	}
}

// c19VarKind classifies a package-level variable by its declaration: "ref" (something can be stored through a copy of it:
// map, slice, pointer, channel, struct / unknown named type), "scalar", "func", "sync" (mutex, once), "opaque" (values whose
// API is immutable or goroutine-safe: compiled regexps, error values).
func c19VarKind(vs *ast.ValueSpec, idx int) string {
	typeKind := func(t ast.Expr) string {
		switch x := t.(type) {
		case *ast.MapType, *ast.ArrayType, *ast.StarExpr, *ast.ChanType, *ast.InterfaceType, *ast.StructType:
			return "ref"
		case *ast.FuncType:
			return "func"
		case *ast.Ident:
			switch x.Name {
			case "string", "bool", "int", "int8", "int16", "int32", "int64", "uint", "uint8", "uint16", "uint32", "uint64", "uintptr", "float32", "float64", "byte", "rune", "error":
				return "scalar"
			}
			return "ref"
		case *ast.SelectorExpr:
			switch src(x) {
			case "sync.Mutex", "sync.RWMutex", "sync.Once", "sync.WaitGroup":
				return "sync"
			case "time.Duration":
				return "scalar"
			}
			return "ref"
		}
		return "ref"
	}
	if vs.Type != nil {
		return typeKind(vs.Type)
	}
	if idx < len(vs.Values) {
		switch v := vs.Values[idx].(type) {
		case *ast.BasicLit:
			return "scalar"
		case *ast.FuncLit:
			return "func"
		case *ast.CompositeLit:
			if v.Type != nil {
				return typeKind(v.Type)
			}
			return "ref"
		case *ast.UnaryExpr:
			return "ref"
		case *ast.BinaryExpr, *ast.ParenExpr:
			return "scalar"
		case *ast.CallExpr:
			switch src(v.Fun) {
			case "regexp.MustCompile", "errors.New", "fmt.Errorf", "fmt.Sprintf", "strings.NewReplacer":
				return "opaque"
			case "make", "new":
				return "ref"
			}
			if _, isConv := v.Fun.(*ast.ArrayType); isConv { // []byte("…")
				return "ref"
			}
			return "ref"
		case *ast.Ident:
			if v.Name == "true" || v.Name == "false" {
				return "scalar"
			}
		}
	}
	return "ref"
}

func genGlobals() (string, string) {
	pkgs := loadPkgs()
	byDir := map[string]*gPkg{}
	for _, pk := range pkgs {
		byDir[pk.dir] = pk
	}
	methodsByName := map[string][]string{} // method name → qualified function keys
	for _, pk := range pkgs {
		for k := range pk.funcs {
			if i := strings.IndexByte(k, '.'); i >= 0 {
				methodsByName[k[i+1:]] = append(methodsByName[k[i+1:]], pk.dir+":"+k)
			}
		}
	}
	// resolve an expression root to (pkgdir, var) if it names a package-level variable
	globalOf := func(pk *gPkg, f *ast.File, lhs ast.Expr) (string, string, bool, int) {
		id, sel, indexed, layers := c19RootIdent(lhs)
		if id == nil {
			return "", "", false, 0
		}
		if sel != nil { // X.Sel with unresolved X: imported package?
			if dir, ok := pk.imports[f][id.Name]; ok {
				if other := byDir[dir]; other != nil {
					if _, ok := other.vars[sel.Sel.Name]; ok {
						return dir, sel.Sel.Name, indexed, layers
					}
				}
				return "", "", false, 0
			}
			// X is an unresolved identifier of this package (a package-level var declared in another file): field store
			if _, ok := pk.vars[id.Name]; ok {
				return pk.dir, id.Name, indexed, layers + 1
			}
			return "", "", false, 0
		}
		if id.Obj == nil {
			if _, ok := pk.vars[id.Name]; ok {
				return pk.dir, id.Name, indexed, layers
			}
			return "", "", false, 0
		}
		if vs, ok := id.Obj.Decl.(*ast.ValueSpec); ok && pk.specs[vs] {
			return pk.dir, id.Name, indexed, layers
		}
		return "", "", false, 0
	}

	// ---- parameters a function stores through (element / field / deref store, delete/clear/copy into it), directly or by
	// handing the parameter on to another function that does; index 0 = receiver, i+1 = i-th parameter name
	paramObjs := func(fd *ast.FuncDecl) map[*ast.Object]int {
		m := map[*ast.Object]int{}
		if fd.Recv != nil {
			for _, fl := range fd.Recv.List {
				for _, n := range fl.Names {
					if n.Obj != nil {
						m[n.Obj] = 0
					}
				}
			}
		}
		i := 1
		for _, fl := range fd.Type.Params.List {
			if len(fl.Names) == 0 {
				i++
			}
			for _, n := range fl.Names {
				if n.Obj != nil {
					m[n.Obj] = i
				}
				i++
			}
		}
		return m
	}
	// callees of a call expression (over-approximation by name for methods); recvArg = the receiver expression if a method call
	calleesOf := func(pk *gPkg, f *ast.File, c *ast.CallExpr) (nodes []string, recv ast.Expr) {
		switch fn := c.Fun.(type) {
		case *ast.Ident:
			if fn.Obj == nil || fn.Obj.Kind == ast.Fun {
				if _, ok := pk.funcs[fn.Name]; ok {
					nodes = append(nodes, pk.dir+":"+fn.Name)
				}
			}
		case *ast.SelectorExpr:
			if xi, ok := fn.X.(*ast.Ident); ok && xi.Obj == nil {
				if dir, ok := pk.imports[f][xi.Name]; ok {
					if other := byDir[dir]; other != nil {
						if _, ok := other.funcs[fn.Sel.Name]; ok {
							nodes = append(nodes, dir+":"+fn.Sel.Name)
						}
					}
					return nodes, nil
				}
			}
			nodes = append(nodes, methodsByName[fn.Sel.Name]...)
			recv = fn.X
		}
		return
	}
	stdMutators := map[string]bool{"sort.Strings": true, "sort.Ints": true, "sort.Slice": true, "sort.SliceStable": true, "sort.Sort": true, "sort.Stable": true,
		"slices.Sort": true, "slices.SortFunc": true, "slices.SortStableFunc": true, "slices.Reverse": true, "maps.Copy": true, "maps.DeleteFunc": true}
	stripAddr := func(e ast.Expr) ast.Expr {
		for {
			switch x := e.(type) {
			case *ast.UnaryExpr:
				if x.Op == token.AND {
					e = x.X
					continue
				}
			case *ast.ParenExpr:
				e = x.X
				continue
			}
			return e
		}
	}
	mutParams := map[string]map[int]bool{}
	setMut := func(node string, i int) bool {
		if mutParams[node] == nil {
			mutParams[node] = map[int]bool{}
		}
		if mutParams[node][i] {
			return false
		}
		mutParams[node][i] = true
		return true
	}
	type fnInfo struct {
		pk *gPkg
		f  *ast.File
		fd *ast.FuncDecl
	}
	var allFuncs []fnInfo
	for _, pk := range pkgs {
		for _, f := range pk.files {
			for _, d := range f.Decls {
				if fd, ok := d.(*ast.FuncDecl); ok && fd.Body != nil {
					allFuncs = append(allFuncs, fnInfo{pk, f, fd})
				}
			}
		}
	}
	for _, fi := range allFuncs { // direct stores
		node := fi.pk.dir + ":" + funcKey(fi.fd)
		po := paramObjs(fi.fd)
		store := func(lhs ast.Expr) {
			if id, sel, indexed, layers := c19RootIdent(lhs); id != nil && sel == nil && id.Obj != nil && (indexed || layers > 0) {
				if i, ok := po[id.Obj]; ok {
					setMut(node, i)
				}
			}
		}
		ast.Inspect(fi.fd.Body, func(n ast.Node) bool {
			switch x := n.(type) {
			case *ast.AssignStmt:
				if x.Tok != token.DEFINE {
					for _, l := range x.Lhs {
						store(l)
					}
				}
			case *ast.IncDecStmt:
				store(x.X)
			case *ast.CallExpr:
				if id, ok := x.Fun.(*ast.Ident); ok && id.Obj == nil && len(x.Args) > 0 && (id.Name == "delete" || id.Name == "clear" || id.Name == "copy") {
					if rid, sel, _, _ := c19RootIdent(x.Args[0]); rid != nil && sel == nil && rid.Obj != nil {
						if i, ok := po[rid.Obj]; ok {
							setMut(node, i)
						}
					}
				}
				if stdMutators[src(x.Fun)] && len(x.Args) > 0 {
					if rid, sel, _, _ := c19RootIdent(stripAddr(x.Args[0])); rid != nil && sel == nil && rid.Obj != nil {
						if i, ok := po[rid.Obj]; ok {
							setMut(node, i)
						}
					}
				}
			}
			return true
		})
	}
	for changed := true; changed; { // handed on to a mutating callee
		changed = false
		for _, fi := range allFuncs {
			node := fi.pk.dir + ":" + funcKey(fi.fd)
			po := paramObjs(fi.fd)
			ast.Inspect(fi.fd.Body, func(n ast.Node) bool {
				c, ok := n.(*ast.CallExpr)
				if !ok {
					return true
				}
				callees, recv := calleesOf(fi.pk, fi.f, c)
				for _, callee := range callees {
					check := func(arg ast.Expr, idx int) {
						if !mutParams[callee][idx] {
							return
						}
						if rid, sel, _, _ := c19RootIdent(stripAddr(arg)); rid != nil && sel == nil && rid.Obj != nil {
							if i, ok := po[rid.Obj]; ok && setMut(node, i) {
								changed = true
							}
						}
					}
					if recv != nil {
						check(recv, 0)
					}
					for ai, arg := range c.Args {
						check(arg, ai+1)
					}
				}
				return true
			})
		}
	}

	var writes []gWrite
	var callerWrites []gCallerWrite
	type gAccess struct {
		pkg, name, fn string
		guarded, init bool
	}
	var accesses []gAccess
	type gReturn struct{ pkg, name, fn string }
	var returns []gReturn
	type gEscape struct{ pkg, name, fn, how string }
	var escapes []gEscape
	kindOf := func(dir, name string) string {
		pk := byDir[dir]
		if pk == nil {
			return "ref"
		}
		vs := pk.vars[name]
		if vs == nil {
			return "ref"
		}
		for i, n := range vs.Names {
			if n.Name == name {
				return c19VarKind(vs, i)
			}
		}
		return "ref"
	}
	edges := map[string]map[string]bool{}
	addEdge := func(from, to string) {
		if edges[from] == nil {
			edges[from] = map[string]bool{}
		}
		edges[from][to] = true
	}
	callerTypes := []string{"ConfigDetails", "ConfigFile", "Mapping", "map[string]string"}

	for _, pk := range pkgs {
		for _, f := range pk.files {
			for _, d := range f.Decls {
				fd, ok := d.(*ast.FuncDecl)
				if !ok || fd.Body == nil {
					continue
				}
				self := pk.dir + ":" + funcKey(fd)
				writer := pk.name + "." + funcKey(fd)
				isInit := fd.Recv == nil && fd.Name.Name == "init"
				// lock regions of this body
				type lk struct {
					pos      token.Pos
					unlock   bool
					deferred bool
				}
				var locks []lk
				ast.Inspect(fd.Body, func(n ast.Node) bool {
					switch x := n.(type) {
					case *ast.DeferStmt:
						if se, ok := x.Call.Fun.(*ast.SelectorExpr); ok && se.Sel.Name == "Unlock" {
							locks = append(locks, lk{x.Pos(), true, true})
						}
						return false
					case *ast.CallExpr:
						if se, ok := x.Fun.(*ast.SelectorExpr); ok && len(x.Args) == 0 {
							switch se.Sel.Name {
							case "Lock":
								locks = append(locks, lk{x.Pos(), false, false})
							case "Unlock":
								locks = append(locks, lk{x.Pos(), true, false})
							}
						}
					}
					return true
				})
				guardedAt := func(p token.Pos) bool {
					held := false
					for _, l := range locks {
						if l.pos >= p {
							break
						}
						if !l.unlock {
							held = true
						} else if !l.deferred {
							held = false
						}
					}
					return held
				}
				// caller-owned parameters
				cparams := map[*ast.Object]string{}
				if pk.dir == "loader" || pk.dir == "cli" {
					var fields []*ast.Field
					if fd.Recv != nil {
						fields = append(fields, fd.Recv.List...)
					}
					fields = append(fields, fd.Type.Params.List...)
					for _, fl := range fields {
						t := src(fl.Type)
						for _, ct := range callerTypes {
							if strings.Contains(t, ct) {
								for _, n := range fl.Names {
									if n.Obj != nil {
										cparams[n.Obj] = n.Name
									}
								}
							}
						}
					}
				}
				// local names bound to (part of) a package-level variable: x := G, x := G[k], x := &G, for _, x := range G
				alias := map[*ast.Object][2]string{}
				bindAlias := func(lhs ast.Expr, rhs ast.Expr) {
					id, ok := lhs.(*ast.Ident)
					if !ok || id.Obj == nil || id.Name == "_" {
						return
					}
					r := stripAddr(rhs)
					if dir, name, _, _ := globalOf(pk, f, r); name != "" {
						alias[id.Obj] = [2]string{dir, name}
						return
					}
					if rid, sel, _, _ := c19RootIdent(r); rid != nil && sel == nil && rid.Obj != nil {
						if a, ok := alias[rid.Obj]; ok {
							alias[id.Obj] = a
						}
					}
				}
				ast.Inspect(fd.Body, func(n ast.Node) bool {
					switch x := n.(type) {
					case *ast.AssignStmt:
						if len(x.Lhs) == len(x.Rhs) {
							for i := range x.Lhs {
								bindAlias(x.Lhs[i], x.Rhs[i])
							}
						} else if len(x.Rhs) == 1 && len(x.Lhs) == 2 { // v, ok := G[k]
							bindAlias(x.Lhs[0], x.Rhs[0])
						}
					case *ast.RangeStmt:
						if x.Value != nil {
							bindAlias(x.Value, x.X)
						}
					case *ast.ValueSpec:
						if len(x.Names) == len(x.Values) {
							for i := range x.Names {
								bindAlias(x.Names[i], x.Values[i])
							}
						}
					}
					return true
				})
				// (dir, var) an expression is rooted at, through a local alias or directly
				targetOf := func(e ast.Expr) (string, string, bool) {
					e = stripAddr(e)
					if dir, name, _, _ := globalOf(pk, f, e); name != "" {
						return dir, name, false
					}
					if rid, sel, _, _ := c19RootIdent(e); rid != nil && sel == nil && rid.Obj != nil {
						if a, ok := alias[rid.Obj]; ok {
							return a[0], a[1], true
						}
					}
					return "", "", false
				}
				skipIdent := map[*ast.Ident]bool{}
				record := func(lhs ast.Expr, kind string, pos token.Pos) {
					if rid, sel, indexed, layers := c19RootIdent(lhs); rid != nil && sel == nil && rid.Obj != nil && (indexed || layers > 0) {
						if a, ok := alias[rid.Obj]; ok {
							writes = append(writes, gWrite{pkg: a[0], name: a[1], writer: writer, kind: "alias-" + kind, inInit: isInit, guarded: guardedAt(pos)})
						}
					}
					if dir, name, indexed, layers := globalOf(pk, f, lhs); name != "" {
						k := kind
						if indexed {
							k = "element-" + kind
						} else if layers > 0 {
							k = "field-" + kind
						}
						writes = append(writes, gWrite{pkg: dir, name: name, writer: writer, kind: k, inInit: isInit, guarded: guardedAt(pos)})
					}
					if id, sel, indexed, _ := c19RootIdent(lhs); id != nil && sel == nil && id.Obj != nil && indexed {
						if pn, ok := cparams[id.Obj]; ok {
							callerWrites = append(callerWrites, gCallerWrite{writer, pn, src(lhs)})
						}
					}
				}
				ast.Inspect(fd.Body, func(n ast.Node) bool {
					switch x := n.(type) {
					case *ast.AssignStmt:
						if len(x.Lhs) == len(x.Rhs) {
							for i, l := range x.Lhs {
								if _, plainLocal := l.(*ast.Ident); plainLocal {
									if id := l.(*ast.Ident); id.Obj != nil || id.Name == "_" {
										continue // a local alias: tracked by `alias`
									}
								}
								if dir, name, _ := targetOf(x.Rhs[i]); name != "" && kindOf(dir, name) == "ref" {
									if ldir, lname, _, _ := globalOf(pk, f, l); lname == name && ldir == dir {
										continue // G = G[…] / G = append(G, …) style self-assignment
									}
									escapes = append(escapes, gEscape{byDir[dir].name, name, writer, "store:" + src(l)})
								}
							}
						}
						if x.Tok != token.DEFINE {
							for _, l := range x.Lhs {
								kind := "assign"
								if len(x.Rhs) == 1 {
									if c, ok := x.Rhs[0].(*ast.CallExpr); ok && src(c.Fun) == "append" {
										kind = "append"
									}
								}
								record(l, kind, x.Pos())
							}
						}
					case *ast.IncDecStmt:
						record(x.X, "incdec", x.Pos())
					case *ast.RangeStmt:
						if x.Tok == token.ASSIGN {
							if x.Key != nil {
								record(x.Key, "assign", x.Pos())
							}
							if x.Value != nil {
								record(x.Value, "assign", x.Pos())
							}
						}
					case *ast.CompositeLit:
						// a reference-typed package-level variable (or an alias) placed in a struct / map / slice value: whoever holds
						// that value can store through it
						for _, el := range x.Elts {
							v := el
							field := ""
							if kv, ok := el.(*ast.KeyValueExpr); ok {
								v = kv.Value
								if k, ok := kv.Key.(*ast.Ident); ok {
									field = "." + k.Name
								}
							}
							if dir, name, _ := targetOf(v); name != "" && kindOf(dir, name) == "ref" {
								escapes = append(escapes, gEscape{byDir[dir].name, name, writer, "literal:" + src(x.Type) + field})
							}
						}
					case *ast.SendStmt:
						if dir, name, _ := targetOf(x.Value); name != "" && kindOf(dir, name) == "ref" {
							escapes = append(escapes, gEscape{byDir[dir].name, name, writer, "send"})
						}
					case *ast.ReturnStmt:
						for _, r := range x.Results {
							if _, isAddr := r.(*ast.UnaryExpr); isAddr || true {
								if dir, name, viaAlias := targetOf(r); name != "" {
									// only the variable itself / an alias of it / its address / a part of it: a copy of a scalar is harmless,
									// which the syntax cannot tell – the reviewed list does
									_ = viaAlias
									returns = append(returns, gReturn{byDir[dir].name, name, writer})
								}
							}
						}
					case *ast.CallExpr:
						// a package-level variable (or an alias of it) handed to a function that stores through that parameter
						if callees, recv := calleesOf(pk, f, x); len(callees) > 0 {
							for _, callee := range callees {
								via := func(arg ast.Expr, idx int) {
									if !mutParams[callee][idx] {
										return
									}
									if dir, name, _ := targetOf(arg); name != "" {
										writes = append(writes, gWrite{pkg: dir, name: name, writer: writer, kind: "via-call:" + strings.Replace(callee, ":", ".", 1), inInit: isInit, guarded: guardedAt(x.Pos())})
									}
								}
								if recv != nil {
									via(recv, 0)
								}
								for ai, arg := range x.Args {
									via(arg, ai+1)
								}
							}
						}
						if stdMutators[src(x.Fun)] && len(x.Args) > 0 {
							if dir, name, _ := targetOf(x.Args[0]); name != "" {
								writes = append(writes, gWrite{pkg: dir, name: name, writer: writer, kind: "via-call:" + src(x.Fun), inInit: isInit, guarded: guardedAt(x.Pos())})
							}
						}
						if callees, _ := calleesOf(pk, f, x); len(callees) == 0 {
							// the address of a package-level variable handed to code outside the module (json.Unmarshal(&G), …)
							for _, arg := range x.Args {
								if u, ok := arg.(*ast.UnaryExpr); ok && u.Op == token.AND {
									if dir, name, _ := targetOf(u.X); name != "" && kindOf(dir, name) != "sync" {
										escapes = append(escapes, gEscape{byDir[dir].name, name, writer, "address-to:" + src(x.Fun)})
									}
								}
							}
						}
						if id, ok := x.Fun.(*ast.Ident); ok && id.Obj == nil && len(x.Args) > 0 {
							switch id.Name {
							case "delete", "clear", "copy":
								// builtin mutation of its first argument
								if dir, name, viaAlias := targetOf(x.Args[0]); name != "" {
									k := id.Name
									if viaAlias {
										k = "alias-" + k
									}
									writes = append(writes, gWrite{pkg: dir, name: name, writer: writer, kind: k, inInit: isInit, guarded: guardedAt(x.Pos())})
								}
								if rid, sel, _, _ := c19RootIdent(x.Args[0]); rid != nil && sel == nil && rid.Obj != nil && id.Name != "copy" {
									if pn, ok := cparams[rid.Obj]; ok {
										callerWrites = append(callerWrites, gCallerWrite{writer, pn, src(x)})
									}
								}
							}
						}
					case *ast.Ident:
						// every reference to a package-level variable of this package is an access
						if !skipIdent[x] {
							if dir, name, _, _ := globalOf(pk, f, x); name != "" {
								accesses = append(accesses, gAccess{byDir[dir].name, name, writer, guardedAt(x.Pos()), isInit})
							}
						}
						// reference to a function of this package
						if x.Obj == nil || x.Obj.Kind == ast.Fun {
							if _, ok := pk.funcs[x.Name]; ok {
								addEdge(self, pk.dir+":"+x.Name)
							}
						}
					case *ast.SelectorExpr:
						skipIdent[x.Sel] = true
						if xi, ok := x.X.(*ast.Ident); ok && xi.Obj == nil {
							if dir, ok := pk.imports[f][xi.Name]; ok {
								skipIdent[xi] = true
								if other := byDir[dir]; other != nil {
									if _, isVar := other.vars[x.Sel.Name]; isVar {
										accesses = append(accesses, gAccess{other.name, x.Sel.Name, writer, guardedAt(x.Pos()), isInit})
									}
								}
								addEdge(self, dir+":"+x.Sel.Name)
								return true
							}
						}
						for _, m := range methodsByName[x.Sel.Name] {
							addEdge(self, m)
						}
					}
					return true
				})
			}
		}
	}
	// reachability from the entry points of the property
	entry := []string{}
	for _, pk := range pkgs {
		for k := range pk.funcs {
			switch {
			case pk.dir == "loader" && (strings.HasPrefix(k, "Load")):
				entry = append(entry, pk.dir+":"+k)
			case pk.dir == "cli" && (k == "ProjectFromOptions" || k == "ProjectOptions.LoadProject" || k == "ProjectOptions.LoadModel" || k == "NewProjectOptions"):
				entry = append(entry, pk.dir+":"+k)
			case pk.dir == "types" && strings.HasPrefix(k, "Project."):
				entry = append(entry, pk.dir+":"+k)
			case pk.dir == "graph" && ast.IsExported(k):
				entry = append(entry, pk.dir+":"+k)
			case pk.dir == "dotenv" && (k == "Read" || k == "Load" || k == "ParseWithLookup" || k == "UnmarshalWithLookup" || k == "GetEnvFromFile"):
				entry = append(entry, pk.dir+":"+k)
			}
		}
	}
	sort.Strings(entry)
	reach := map[string]bool{}
	stack := append([]string{}, entry...)
	for len(stack) > 0 {
		n := stack[len(stack)-1]
		stack = stack[:len(stack)-1]
		if reach[n] {
			continue
		}
		reach[n] = true
		for m := range edges[n] {
			if !reach[m] {
				stack = append(stack, m)
			}
		}
	}
	pkgName := map[string]string{}
	for _, pk := range pkgs {
		pkgName[pk.dir] = pk.name
	}
	for i := range writes {
		w := &writes[i]
		// writer is "pkgname.Key"; find its node
		for _, pk := range pkgs {
			if strings.HasPrefix(w.writer, pk.name+".") {
				if reach[pk.dir+":"+strings.TrimPrefix(w.writer, pk.name+".")] {
					w.reach = true
				}
			}
		}
		w.pkg = pkgName[w.pkg]
	}
	sort.Slice(writes, func(i, j int) bool {
		a, b := writes[i], writes[j]
		if a.pkg != b.pkg {
			return a.pkg < b.pkg
		}
		if a.name != b.name {
			return a.name < b.name
		}
		if a.writer != b.writer {
			return a.writer < b.writer
		}
		return a.kind < b.kind
	})
	// de-duplicate identical rows
	var uniq []gWrite
	for i, w := range writes {
		if i == 0 || w != writes[i-1] {
			uniq = append(uniq, w)
		}
	}
	writes = uniq
	sort.Slice(callerWrites, func(i, j int) bool {
		a, b := callerWrites[i], callerWrites[j]
		if a.fn != b.fn {
			return a.fn < b.fn
		}
		return a.expr < b.expr
	})

	var b strings.Builder
	b.WriteString(header + "namespace CV.Gen\n\n")
	b.WriteString("/-- package-level `var`s of the non-test packages (package, name) -/\ndef packageVars : List (String × String) := [\n")
	first := true
	nvars := 0
	for _, pk := range pkgs {
		var names []string
		for n := range pk.vars {
			names = append(names, n)
		}
		sort.Strings(names)
		for _, n := range names {
			if !first {
				b.WriteString(",\n")
			}
			first = false
			fmt.Fprintf(&b, "  (%s, %s)", leanStr(pk.name), leanStr(n))
			nvars++
		}
	}
	b.WriteString("]\n\n")
	boolStr := func(x bool) string {
		if x {
			return "true"
		}
		return "false"
	}
	b.WriteString("/-- writes to package-level variables from function bodies:\n    (package, variable, writer, kind, writer is `init`, a `Lock()` is held, reachable from a load / fan-out / traversal entry point) -/\n")
	b.WriteString("def globalWrites : List (String × String × String × String × Bool × Bool × Bool) := [\n")
	for i, w := range writes {
		if i > 0 {
			b.WriteString(",\n")
		}
		fmt.Fprintf(&b, "  (%s, %s, %s, %s, %s, %s, %s)", leanStr(w.pkg), leanStr(w.name), leanStr(w.writer), leanStr(w.kind), boolStr(w.inInit), boolStr(w.guarded), boolStr(w.reach))
	}
	b.WriteString("]\n\n")
	b.WriteString("/-- the writes that happen after package initialisation without a held mutex: (package, variable, writer, reachable) -/\n")
	b.WriteString("def unguardedGlobalWrites : List (String × String × String × Bool) :=\n  globalWrites.filterMap fun (p, v, w, _, ini, guarded, reach) => if !ini && !guarded then some (p, v, w, reach) else none\n\n")
	b.WriteString("/-- element stores / deletes through a parameter that carries caller-owned data (function, parameter, expression) -/\n")
	b.WriteString("def callerOwnedWrites : List (String × String × String) := [\n")
	for i, w := range callerWrites {
		if i > 0 {
			b.WriteString(",\n")
		}
		fmt.Fprintf(&b, "  (%s, %s, %s)", leanStr(w.fn), leanStr(w.param), leanStr(w.expr))
	}
	b.WriteString("]\n\n")
	// accesses (reads included) of variables that have a lock-held write
	guardedVar := map[string]bool{}
	for _, w := range writes {
		if w.guarded && !w.inInit {
			guardedVar[w.pkg+"."+w.name] = true
		}
	}
	type accRow struct{ pkg, name, fn string }
	accSeen := map[accRow]bool{}
	var unguardedAcc []accRow
	nAcc := 0
	for _, a := range accesses {
		if !guardedVar[a.pkg+"."+a.name] || a.init {
			continue
		}
		nAcc++
		r := accRow{a.pkg, a.name, a.fn}
		if !a.guarded && !accSeen[r] {
			accSeen[r] = true
			unguardedAcc = append(unguardedAcc, r)
		}
	}
	sort.Slice(unguardedAcc, func(i, j int) bool {
		return unguardedAcc[i].pkg+unguardedAcc[i].name+unguardedAcc[i].fn < unguardedAcc[j].pkg+unguardedAcc[j].name+unguardedAcc[j].fn
	})
	var gv []string
	for k := range guardedVar {
		gv = append(gv, k)
	}
	sort.Strings(gv)
	fmt.Fprintf(&b, "/-- package-level variables that have a write under a held `Lock()` (outside `init`) -/\ndef lockGuardedVars : List String := [%s]\n\n", joinLean(gv))
	fmt.Fprintf(&b, "/-- accesses (READS included) of those variables outside `init` at a point where no `Lock()` is held: (package, variable, function); %d accesses looked at -/\n", nAcc)
	b.WriteString("def unguardedAccessesOfGuardedVars : List (String × String × String) := [\n")
	for i, r := range unguardedAcc {
		if i > 0 {
			b.WriteString(",\n")
		}
		fmt.Fprintf(&b, "  (%s, %s, %s)", leanStr(r.pkg), leanStr(r.name), leanStr(r.fn))
	}
	b.WriteString("]\n\n")
	// package-level variables (or parts / aliases / addresses of them) returned by a function: the caller can store through the result
	retSeen := map[gReturn]bool{}
	var rets []gReturn
	for _, r := range returns {
		if !retSeen[r] {
			retSeen[r] = true
			rets = append(rets, r)
		}
	}
	sort.Slice(rets, func(i, j int) bool { return rets[i].pkg+rets[i].name+rets[i].fn < rets[j].pkg+rets[j].name+rets[j].fn })
	b.WriteString("/-- functions that return (a part of / an alias of / the address of) a package-level variable: (package, variable, function) -/\n")
	b.WriteString("def globalsReturned : List (String × String × String) := [\n")
	for i, r := range rets {
		if i > 0 {
			b.WriteString(",\n")
		}
		fmt.Fprintf(&b, "  (%s, %s, %s)", leanStr(r.pkg), leanStr(r.name), leanStr(r.fn))
	}
	b.WriteString("]\n\n")
	// reference-typed package-level variables that are copied somewhere a later store could go through
	escSeen := map[gEscape]bool{}
	var escs []gEscape
	for _, e := range escapes {
		if !escSeen[e] {
			escSeen[e] = true
			escs = append(escs, e)
		}
	}
	sort.Slice(escs, func(i, j int) bool {
		return escs[i].pkg+escs[i].name+escs[i].fn+escs[i].how < escs[j].pkg+escs[j].name+escs[j].fn+escs[j].how
	})
	b.WriteString("/-- reference-typed package-level variables (maps, slices, pointers, structs; or aliases of them) that are stored into a\n    field / element / other variable, placed in a composite literal, sent on a channel, or whose address is handed to code\n    outside the module: (package, variable, function, how) -/\n")
	b.WriteString("def globalsEscaping : List (String × String × String × String) := [\n")
	for i, e := range escs {
		if i > 0 {
			b.WriteString(",\n")
		}
		fmt.Fprintf(&b, "  (%s, %s, %s, %s)", leanStr(e.pkg), leanStr(e.name), leanStr(e.fn), leanStr(e.how))
	}
	b.WriteString("]\n\n")
	// the fields the variables escaped into: every element store / delete anywhere in the module that goes through a field of that name
	escFields := map[string]bool{}
	for _, e := range escs {
		if i := strings.LastIndexByte(e.how, '.'); i >= 0 && (strings.HasPrefix(e.how, "literal:") || strings.HasPrefix(e.how, "store:")) {
			escFields[e.how[i+1:]] = true
		}
	}
	type fStore struct{ field, fn, expr string }
	var fstores []fStore
	for _, fi := range allFuncs {
		w := fi.pk.name + "." + funcKey(fi.fd)
		through := func(e ast.Expr) {
			t := src(e)
			for fld := range escFields {
				if strings.Contains(t, "."+fld+"[") {
					fstores = append(fstores, fStore{fld, w, t})
				}
			}
		}
		ast.Inspect(fi.fd.Body, func(n ast.Node) bool {
			switch x := n.(type) {
			case *ast.AssignStmt:
				if x.Tok != token.DEFINE {
					for _, l := range x.Lhs {
						through(l)
					}
				}
			case *ast.IncDecStmt:
				through(x.X)
			case *ast.CallExpr:
				if id, ok := x.Fun.(*ast.Ident); ok && id.Obj == nil && len(x.Args) > 0 && (id.Name == "delete" || id.Name == "clear") {
					if t := src(x.Args[0]); true {
						for fld := range escFields {
							if strings.HasSuffix(t, "."+fld) {
								fstores = append(fstores, fStore{fld, w, src(x)})
							}
						}
					}
				}
			}
			return true
		})
	}
	sort.Slice(fstores, func(i, j int) bool { return fstores[i].fn+fstores[i].expr < fstores[j].fn+fstores[j].expr })
	var fl []string
	for k := range escFields {
		fl = append(fl, k)
	}
	sort.Strings(fl)
	fmt.Fprintf(&b, "/-- struct fields a package-level variable escaped into -/\ndef escapedIntoFields : List String := [%s]\n\n", joinLean(fl))
	b.WriteString("/-- element stores / deletes anywhere in the module that go through a field of one of those names: (field, function, expression) -/\n")
	b.WriteString("def storesThroughEscapedFields : List (String × String × String) := [\n")
	for i, e := range fstores {
		if i > 0 {
			b.WriteString(",\n")
		}
		fmt.Fprintf(&b, "  (%s, %s, %s)", leanStr(e.field), leanStr(e.fn), leanStr(e.expr))
	}
	b.WriteString("]\n\nend CV.Gen\n")
	fmt.Fprintf(logw, "globals: %d escapes of reference-typed package vars, %d stores through the fields they escaped into\n", len(escs), len(fstores))
	fmt.Fprintf(logw, "globals: %d accesses of %d lock-guarded vars (%d unguarded), %d returns of globals, %d functions with mutated parameters\n", nAcc, len(gv), len(unguardedAcc), len(rets), len(mutParams))
	fmt.Fprintf(logw, "globals: %d package vars, %d writes (%d outside init), %d caller-owned stores, %d reachable functions\n", nvars, len(writes), func() int {
		c := 0
		for _, w := range writes {
			if !w.inInit {
				c++
			}
		}
		return c
	}(), len(callerWrites), len(reach))
	return "Globals.lean", b.String()
}

// fanoutOrderFact: in types.(*Project).WithServicesTransform every access to `newProject.Services` made by the calling
// goroutine itself (outside the function literals handed to eg.Go) precedes the first `eg.Go(` — the order the Lean
// model's initial state (`CV.Fanout.init`: read, then collector start) assumes.
func fanoutOrderFact() (found bool, ok bool, nGo int) {
	f := parse("types/project.go")
	for _, d := range f.Decls {
		fd, isFn := d.(*ast.FuncDecl)
		if !isFn || fd.Name.Name != "WithServicesTransform" || fd.Body == nil {
			continue
		}
		found = true
		firstGo := token.NoPos
		var outer []token.Pos
		var walk func(n ast.Node, inLit bool)
		walk = func(n ast.Node, inLit bool) {
			ast.Inspect(n, func(x ast.Node) bool {
				switch v := x.(type) {
				case *ast.FuncLit:
					if v != n {
						walk(v.Body, true)
						return false
					}
				case *ast.CallExpr:
					if src(v.Fun) == "eg.Go" {
						nGo++
						if firstGo == token.NoPos || v.Pos() < firstGo {
							firstGo = v.Pos()
						}
					}
				case *ast.SelectorExpr:
					if !inLit && src(v) == "newProject.Services" {
						outer = append(outer, v.Pos())
					}
				}
				return true
			})
		}
		walk(fd.Body, false)
		ok = firstGo != token.NoPos
		for _, p := range outer {
			if p > firstGo {
				ok = false
			}
		}
	}
	return
}

// c19TravLimitFact: the argument of every `eg.SetLimit(…)` in graph/traversal.go and the condition of the enclosing `if`
// (the Lean model of the walk gives the errgroup `limit + 1` slots, one of them held by the coordinator).
func c19TravLimitFact() (args []string, guards []string) {
	f := parse("graph/traversal.go")
	var stack []ast.Node
	ast.Inspect(f, func(n ast.Node) bool {
		if n == nil {
			stack = stack[:len(stack)-1]
			return true
		}
		stack = append(stack, n)
		if c, ok := n.(*ast.CallExpr); ok {
			if se, ok := c.Fun.(*ast.SelectorExpr); ok && se.Sel.Name == "SetLimit" && len(c.Args) == 1 {
				args = append(args, src(c.Args[0]))
				g := ""
				for i := len(stack) - 1; i >= 0; i-- {
					if is, ok := stack[i].(*ast.IfStmt); ok {
						g = src(is.Cond)
						break
					}
				}
				guards = append(guards, g)
			}
		}
		return true
	})
	return
}

func init() {
	extraGenerators = append(extraGenerators, func() (string, string) {
		name, content := genGlobals()
		found, ok, nGo := fanoutOrderFact()
		largs, lguards := c19TravLimitFact()
		trav := fmt.Sprintf("\n/-- graph/traversal.go: arguments of `eg.SetLimit` and the conditions guarding the calls -/\ndef travSetLimitArgs : List String := [%s]\ndef travSetLimitGuards : List String := [%s]\n", joinLean(largs), joinLean(lguards))
		content = strings.Replace(content, "\nend CV.Gen\n", trav+"\nend CV.Gen\n", 1)
		extra := fmt.Sprintf("\n/-- `WithServicesTransform` exists, starts its goroutines with `eg.Go` (%d call sites), and the calling goroutine's own\n    accesses to `newProject.Services` all precede the first of them -/\ndef fanoutFieldReadPrecedesSpawn : Bool := %v\n\nend CV.Gen\n", nGo, found && ok && nGo == 2)
		content = strings.Replace(content, "\nend CV.Gen\n", extra, 1)
		return name, content
	})
}
