package main

// schema/compose-spec.json → Gen/Schema.lean: the schema as a Lean term of `CV.Schema.S`, `$ref`s inlined
// (the definitions are not recursive; a recursive or unknown reference becomes `S.unknown`, which no theorem accepts).

import (
	"encoding/json"
	"fmt"
	"os"
	"path/filepath"
	"sort"
	"strings"
)

func init() {
	extraGenerators = append(extraGenerators, genSchema)
}

var schemaKnownKeys = map[string]bool{"type": true, "properties": true, "patternProperties": true, "additionalProperties": true,
	"items": true, "oneOf": true, "anyOf": true, "enum": true, "required": true, "uniqueItems": true, "minimum": true,
	"maximum": true, "format": true, "$ref": true,
	// annotations without validation effect
	"id": true, "description": true, "title": true, "$schema": true, "default": true, "deprecated": true, "definitions": true}

var schemaPatterns = map[string]string{
	"^x-":                ".xDash",
	"^[a-zA-Z0-9._-]+$": ".nameChars",
	"^.+$":               ".nonEmptyLine",
	".+":                 ".someChar",
	"^[a-z]+$":           ".lower",
}

func genSchema() (string, string) {
	raw, err := os.ReadFile(filepath.Join(repo, "schema", "compose-spec.json"))
	if err != nil {
		fmt.Fprintf(os.Stderr, "translator: %v\n", err)
		os.Exit(1)
	}
	var root map[string]any
	if err := json.Unmarshal(raw, &root); err != nil {
		fmt.Fprintf(os.Stderr, "translator: %v\n", err)
		os.Exit(1)
	}
	defs, _ := root["definitions"].(map[string]any)
	nodes := 0
	var emit func(x any, stack []string, ind string) string
	emit = func(x any, stack []string, ind string) string {
		m, ok := x.(map[string]any)
		if !ok {
			return fmt.Sprintf("(.unknown %s)", leanStr(fmt.Sprint(x)))
		}
		nodes++
		for k := range m {
			if !schemaKnownKeys[k] {
				return fmt.Sprintf("(.unknown %s)", leanStr("keyword "+k))
			}
		}
		if ref, ok := m["$ref"].(string); ok {
			for k := range m {
				if k != "$ref" {
					return fmt.Sprintf("(.unknown %s)", leanStr("$ref with sibling "+k))
				}
			}
			name := strings.TrimPrefix(ref, "#/definitions/")
			for _, s := range stack {
				if s == name {
					return fmt.Sprintf("(.unknown %s)", leanStr("recursive $ref "+name))
				}
			}
			d, ok := defs[name]
			if !ok {
				return fmt.Sprintf("(.unknown %s)", leanStr("dangling $ref "+ref))
			}
			return emit(d, append(stack, name), ind)
		}
		in2 := ind + "  "
		// types
		var tys []string
		switch t := m["type"].(type) {
		case string:
			tys = []string{"." + t}
		case []any:
			for _, e := range t {
				tys = append(tys, "."+fmt.Sprint(e))
			}
		case nil:
		default:
			return fmt.Sprintf("(.unknown %s)", leanStr("type"))
		}
		for i, t := range tys {
			switch t {
			case ".string", ".object", ".array", ".boolean", ".number", ".integer", ".null":
			default:
				tys[i] = "(.other " + leanStr(t) + ")"
			}
		}
		propsOf := func(key string, isPat bool) string {
			pm, _ := m[key].(map[string]any)
			ks := make([]string, 0, len(pm))
			for k := range pm {
				ks = append(ks, k)
			}
			sort.Strings(ks)
			var items []string
			for _, k := range ks {
				if isPat {
					p, known := schemaPatterns[k]
					if !known {
						p = "(.unknown " + leanStr(k) + ")"
					}
					items = append(items, fmt.Sprintf("\n%s(%s, %s)", in2, p, emit(pm[k], stack, in2)))
				} else {
					items = append(items, fmt.Sprintf("\n%s(%s, %s)", in2, leanStr(k), emit(pm[k], stack, in2)))
				}
			}
			return "[" + strings.Join(items, ",") + "]"
		}
		addl := ".allow"
		switch a := m["additionalProperties"].(type) {
		case bool:
			if !a {
				addl = ".deny"
			}
		case nil:
		default:
			addl = "(.unknownAddl)"
		}
		items := "none"
		if it, ok := m["items"]; ok {
			items = "(some " + emit(it, stack, in2) + ")"
		}
		listOf := func(key string) string {
			l, _ := m[key].([]any)
			var out []string
			for _, e := range l {
				out = append(out, "\n"+in2+emit(e, stack, in2))
			}
			return "[" + strings.Join(out, ",") + "]"
		}
		strList := func(key string) (string, bool) {
			l, present := m[key].([]any)
			var out []string
			for _, e := range l {
				s, ok := e.(string)
				if !ok {
					return "[" + leanStr("unknown:non-string") + "]", present
				}
				out = append(out, leanStr(s))
			}
			return "[" + strings.Join(out, ", ") + "]", present
		}
		enum := "none"
		if e, present := strList("enum"); present {
			enum = "(some " + e + ")"
		}
		req, _ := strList("required")
		num := func(key string) string {
			v, ok := m[key]
			if !ok {
				return "none"
			}
			f, isF := v.(float64)
			if !isF || f != float64(int64(f)) {
				return "(some 424242424242)"
			}
			if f < 0 {
				return fmt.Sprintf("(some (%d))", int64(f))
			}
			return fmt.Sprintf("(some %d)", int64(f))
		}
		uniq := "false"
		if u, _ := m["uniqueItems"].(bool); u {
			uniq = "true"
		}
		format := "none"
		if f, ok := m["format"].(string); ok {
			format = "(some " + leanStr(f) + ")"
		}
		return fmt.Sprintf("(.node [%s] %s %s %s %s %s %s %s %s %s %s %s %s)", strings.Join(tys, ", "),
			propsOf("properties", false), propsOf("patternProperties", true), addl, items, listOf("oneOf"), listOf("anyOf"),
			enum, req, uniq, num("minimum"), num("maximum"), format)
	}
	var b strings.Builder
	b.WriteString("import ComposeVerif.Model.Schema\n" + header + "namespace CV.Gen\nopen CV.Schema\n\n")
	b.WriteString("/-- schema/compose-spec.json with `$ref`s inlined -/\ndef composeSchema : S :=\n  " + emit(root, nil, "  ") + "\n\n")
	names := make([]string, 0, len(defs))
	for n := range defs {
		names = append(names, n)
	}
	sort.Strings(names)
	fmt.Fprintf(&b, "def schemaDefinitionNames : List String := [%s]\n\nend CV.Gen\n", joinLean(names))
	fmt.Fprintf(logw, "schema: %d nodes, %d definitions\n", nodes, len(defs))
	return "Schema.lean", b.String()
}
