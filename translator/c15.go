package main

// Facts for property C15, regenerated from the source on every run (Gen/C15Facts.lean):
// the *statement skeleton* of every function that lean/ComposeVerif/Model/Select.lean models by hand —
// HasProfile, AllServices, WithProfiles, WithServicesEnabled, WithServicesEnvironmentResolved, WithServicesDisabled,
// ForEachService, withServices, getServicesByNames, dependentsForService, WithSelectedServices,
// WithoutUnnecessaryResources (types/project.go) and MapKeys / MapsAppend (utils/collectionutils.go); since round 5 also the
// three DependencyOption functions, ServiceNames, DisabledServiceNames, GetService, GetServices, GetDisabledService,
// GetDependentsForService (types/project.go) and ServiceConfig.GetDependents (types/types.go).
// Every statement of the body is printed in source order (ranges, conditions, assignments, deletes, calls, returns,
// switch cases, continue); Props/C15Facts.lean states the skeletons as literals next to the model definition written
// against them, so an edit of one of these bodies breaks an obligation before the differential streams start.

import (
	"fmt"
	"go/ast"
	"strings"
)

func init() { extraGenerators = append(extraGenerators, c15GenFacts) }

func c15Line(s string) string {
	// one statement = one line: a statement that carries a function literal is cut at the literal
	lines := strings.Split(s, "\n")
	for len(lines) > 1 && strings.HasPrefix(strings.TrimSpace(lines[0]), "//") {
		lines = lines[1:] // a comment attached to a declaration is not part of the skeleton
	}
	s = strings.TrimSpace(lines[0])
	if len(lines) > 1 {
		s += " …"
	}
	return strings.Join(strings.Fields(s), " ")
}

func c15Stmts(body *ast.BlockStmt) []string {
	var out []string
	ast.Inspect(body, func(n ast.Node) bool {
		switch x := n.(type) {
		case *ast.RangeStmt:
			h := "range " + src(x.X)
			if x.Key != nil {
				k := src(x.Key)
				if x.Value != nil {
					k += ", " + src(x.Value)
				}
				h = "for " + k + " " + x.Tok.String() + " " + h
			}
			out = append(out, c15Line(h))
		case *ast.ForStmt:
			out = append(out, "for "+c15Line(src(x.Cond)))
		case *ast.IfStmt:
			if x.Init != nil {
				out = append(out, c15Line("if "+src(x.Init)+"; "+src(x.Cond)))
			} else {
				out = append(out, c15Line("if "+src(x.Cond)))
			}
			if x.Else != nil {
				// the else branch is announced where the if is met; its statements follow the then-branch
				out = append(out, "(has else)")
			}
		case *ast.SwitchStmt:
			out = append(out, c15Line("switch "+src(x.Tag)))
		case *ast.CaseClause:
			if x.List == nil {
				out = append(out, "default")
			} else {
				var l []string
				for _, e := range x.List {
					l = append(l, src(e))
				}
				out = append(out, "case "+strings.Join(l, ", "))
			}
		case *ast.AssignStmt, *ast.ExprStmt, *ast.DeclStmt, *ast.IncDecStmt, *ast.BranchStmt, *ast.ReturnStmt, *ast.DeferStmt, *ast.GoStmt:
			out = append(out, c15Line(src(x)))
		}
		return true
	})
	return out
}

func c15Func(f *ast.File, recv, name string) []string {
	for _, d := range f.Decls {
		fd, ok := d.(*ast.FuncDecl)
		if !ok || fd.Name.Name != name || fd.Body == nil {
			continue
		}
		r := ""
		if fd.Recv != nil && len(fd.Recv.List) == 1 {
			r = strings.TrimPrefix(src(fd.Recv.List[0].Type), "*")
		}
		if r != recv {
			continue
		}
		sig := c15Line("func " + src(fd.Type)[4:])
		return append([]string{sig}, c15Stmts(fd.Body)...)
	}
	return []string{"unknown: function " + recv + "." + name + " not found"}
}

func c15GenFacts() (string, string) {
	var b strings.Builder
	b.WriteString(header + "namespace CV.Gen\n\n")
	total := 0
	emit := func(file string, f *ast.File, recv, name string) {
		sk := c15Func(f, recv, name)
		total += len(sk)
		fmt.Fprintf(&b, "/-- %s `%s`: signature, then every statement of the body in source order -/\ndef c15_%s : List String := [\n  %s]\n\n",
			file, name, name, strings.Join(quoteAll(sk), ",\n  "))
	}
	p := parse("types/project.go")
	for _, fn := range [][2]string{{"ServiceConfig", "HasProfile"}, {"Project", "AllServices"}, {"Project", "WithProfiles"},
		{"Project", "WithServicesEnabled"}, {"Project", "WithServicesEnvironmentResolved"}, {"Project", "WithServicesDisabled"},
		{"Project", "ForEachService"}, {"Project", "withServices"}, {"Project", "getServicesByNames"},
		{"Project", "dependentsForService"}, {"Project", "WithSelectedServices"}, {"Project", "WithoutUnnecessaryResources"}} {
		emit("types/project.go", p, fn[0], fn[1])
	}
	// round 5: option functions, accessors of the partition
	for _, fn := range [][2]string{{"", "IncludeDependencies"}, {"", "IncludeDependents"}, {"", "IgnoreDependencies"},
		{"Project", "ServiceNames"}, {"Project", "DisabledServiceNames"}, {"Project", "GetService"}, {"Project", "GetServices"},
		{"Project", "GetDisabledService"}, {"Project", "GetDependentsForService"}} {
		emit("types/project.go", p, fn[0], fn[1])
	}
	emit("types/types.go", parse("types/types.go"), "ServiceConfig", "GetDependents")
	emit("types/services.go", parse("types/services.go"), "Services", "GetProfiles")
	u := parse("utils/collectionutils.go")
	emit("utils/collectionutils.go", u, "", "MapKeys")
	emit("utils/collectionutils.go", u, "", "MapsAppend")
	// round 6: the loader side of profile selection (Model/SelectLoad.lean).  Of `loader.modelToProject` and
	// `loader.checkConsistency` only the statements the model is written against are pinned (the profile step, the two
	// guarded steps after it and their order; the depends_on loop) — the rest of those bodies belongs to other properties.
	emitSel := func(file string, f *ast.File, recv, name, as string, keep ...string) {
		var sk []string
		for _, l := range c15Func(f, recv, name) {
			for _, k := range keep {
				if strings.Contains(l, k) {
					sk = append(sk, l)
					break
				}
			}
		}
		total += len(sk)
		fmt.Fprintf(&b, "/-- %s `%s`: the statements that mention %s, in source order -/\ndef c15_%s : List String := [\n  %s]\n\n",
			file, name, strings.Join(keep, " / "), as, strings.Join(quoteAll(sk), ",\n  "))
	}
	emitSel("loader/loader.go", parse("loader/loader.go"), "", "modelToProject", "modelToProject_tail",
		"WithProfiles", "SkipConsistencyCheck", "checkConsistency", "SkipResolveEnvironment", "WithServicesEnvironmentResolved", "Transform(")
	emitSel("loader/validate.go", parse("loader/validate.go"), "", "checkConsistency", "checkConsistency_dependsOn",
		"DependsOn", "dependedService", "ErrDisabled")
	emit("cli/options.go", parse("cli/options.go"), "", "WithDefaultProfiles")
	b.WriteString("end CV.Gen\n")
	fmt.Fprintf(logw, "C15 facts: %d skeleton entries of the selection functions of types/project.go\n", total)
	return "C15Facts.lean", b.String()
}
