package main

// c14apply.go — C14, round 6: the marshaller option path and the census of everything in package types that returns a
// *Project (appended to Gen/C14Progs.lean by genC14Progs).
//
//   projectReturning   every function / method of package types (test files and Verif* hooks excluded) with a result of
//                      type *Project: (qualified name, receiver type or "").  Props/C14Apply.lean obliges the list to be
//                      exactly the one the theorems and streams cover.
//   applySkeleton      the statement skeleton of `(*marshallOptions).apply` after one semantics-preserving normalisation:
//                      `if c { p = p.deepCopy(); B }; return p`  (p a parameter)  is read as
//                      `if c { pc := p.deepCopy(); B[p:=pc]; return pc }; return p`, so that the copy and the receiver
//                      have different names (the heap language never rebinds the receiver).  When the pattern is not
//                      there the function is translated as it stands.
//   marshalSources     normalised source text of the glue around it (applyMarshallOptions, WithSecretContent).
//   marshalReceiverUses  the statements of MarshalYAML / MarshalJSON that mention the receiver (expected: only the call
//                      of applyMarshallOptions — everything else reads its result).

import (
	"fmt"
	"go/ast"
	"go/token"
	"sort"
	"strings"
)

func isStarProject(e ast.Expr) bool {
	st, ok := e.(*ast.StarExpr)
	if !ok {
		return false
	}
	id, ok := st.X.(*ast.Ident)
	return ok && id.Name == "Project"
}

func returnsProject(fd *ast.FuncDecl) bool {
	if fd.Type.Results == nil {
		return false
	}
	for _, r := range fd.Type.Results.List {
		if isStarProject(r.Type) {
			return true
		}
	}
	return false
}

// c14SSAParamCopy rewrites `if c { x = x.deepCopy(); B }; return x` in place (see the file comment); reports whether it did
func c14SSAParamCopy(fd *ast.FuncDecl) bool {
	if fd.Body == nil {
		return false
	}
	params := map[string]bool{}
	for _, p := range fd.Type.Params.List {
		for _, n := range p.Names {
			params[n.Name] = true
		}
	}
	l := fd.Body.List
	for i, s := range l {
		ifs, ok := s.(*ast.IfStmt)
		if !ok || ifs.Else != nil || ifs.Init != nil || len(ifs.Body.List) == 0 || i+1 >= len(l) {
			continue
		}
		as, ok := ifs.Body.List[0].(*ast.AssignStmt)
		if !ok || as.Tok != token.ASSIGN || len(as.Lhs) != 1 || len(as.Rhs) != 1 {
			continue
		}
		x, ok := as.Lhs[0].(*ast.Ident)
		if !ok || !params[x.Name] || norm(src(as.Rhs[0])) != x.Name+".deepCopy()" {
			continue
		}
		ret, ok := l[i+1].(*ast.ReturnStmt)
		if !ok || len(ret.Results) != 1 || src(ret.Results[0]) != x.Name {
			continue
		}
		name, fresh := x.Name, x.Name+"c"
		as.Tok = token.DEFINE
		as.Lhs[0] = ast.NewIdent(fresh)
		for _, r := range ifs.Body.List[1:] {
			ast.Inspect(r, func(n ast.Node) bool {
				if id, ok := n.(*ast.Ident); ok && id.Name == name {
					id.Name = fresh
				}
				return true
			})
		}
		ifs.Body.List = append(ifs.Body.List, &ast.ReturnStmt{Results: []ast.Expr{ast.NewIdent(fresh)}})
		return true
	}
	return false
}

func c14GenApply(g *cpGen, b *strings.Builder) {
	// census
	type row struct{ name, recv string }
	var rows []row
	for k, fd := range g.methods {
		if returnsProject(fd) {
			rows = append(rows, row{k, strings.SplitN(k, ".", 2)[0]})
		}
	}
	for k, fd := range g.funcs {
		if returnsProject(fd) && !strings.HasPrefix(k, "Verif") {
			rows = append(rows, row{k, ""})
		}
	}
	sort.Slice(rows, func(i, j int) bool { return rows[i].name < rows[j].name })
	b.WriteString("/-- every function / method of package types with a result of type *Project (Verif* hooks and tests excluded): (name, receiver type) -/\ndef projectReturning : List (String × String) := [")
	for i, r := range rows {
		if i > 0 {
			b.WriteString(",")
		}
		fmt.Fprintf(b, "\n  (%s, %s)", leanStr(r.name), leanStr(r.recv))
	}
	b.WriteString("]\n\n")
	// the views: methods of Project that hand out model state which is not a project (they read; what they return may
	// share the receiver's maps by design — the oracle's "Accessors" step checks that the receiver is left as it was)
	pureRes := map[string]bool{"[]string": true, "string": true, "error": true, "bool": true, "[]byte": true}
	var views []row
	for k, fd := range g.methods {
		if !strings.HasPrefix(k, "Project.") || returnsProject(fd) || fd.Type.Results == nil {
			continue
		}
		var rs []string
		model := false
		for _, r := range fd.Type.Results.List {
			t := norm(src(r.Type))
			rs = append(rs, t)
			if !pureRes[t] {
				model = true
			}
		}
		if model {
			views = append(views, row{k, strings.Join(rs, ", ")})
		}
	}
	sort.Slice(views, func(i, j int) bool { return views[i].name < views[j].name })
	b.WriteString("/-- methods of Project that return model state other than a project: (name, result types) -/\ndef projectViews : List (String × String) := [")
	for i, r := range views {
		if i > 0 {
			b.WriteString(",")
		}
		fmt.Fprintf(b, "\n  (%s, %s)", leanStr(r.name), leanStr(r.recv))
	}
	b.WriteString("]\n\n")
	// the glue
	b.WriteString("/-- normalised source text of the marshaller option glue -/\ndef marshalSources : List (String × String) := [")
	first := true
	emit := func(key string, fd *ast.FuncDecl) {
		s := "missing"
		if fd != nil {
			s = c14NormSrc(fd)
		}
		if !first {
			b.WriteString(",")
		}
		first = false
		fmt.Fprintf(b, "\n  (%s, %s)", leanStr(key), leanStr(s))
	}
	emit("applyMarshallOptions", g.funcs["applyMarshallOptions"])
	emit("WithSecretContent", g.funcs["WithSecretContent"])
	b.WriteString("]\n\n")
	// the two marshal methods: every statement (outermost) that mentions the receiver
	b.WriteString("/-- MarshalYAML / MarshalJSON: the outermost statements of the body that mention the receiver (normalised text) -/\ndef marshalReceiverUses : List (String × List String) := [")
	for i, n := range []string{"MarshalYAML", "MarshalJSON"} {
		var uses []string
		if fd, ok := g.methods["Project."+n]; ok && fd.Body != nil && fd.Recv != nil && len(fd.Recv.List[0].Names) == 1 {
			rv := fd.Recv.List[0].Names[0].Name
			for _, st := range fd.Body.List {
				hit := false
				ast.Inspect(st, func(x ast.Node) bool {
					if id, ok := x.(*ast.Ident); ok && id.Name == rv {
						hit = true
					}
					return !hit
				})
				if hit {
					uses = append(uses, leanStr(norm(src(st))))
				}
			}
		} else {
			uses = []string{leanStr("missing")}
		}
		if i > 0 {
			b.WriteString(",")
		}
		fmt.Fprintf(b, "\n  (%s, [%s])", leanStr(n), strings.Join(uses, ", "))
	}
	b.WriteString("]\n\n")
	// the skeleton of apply (last: the AST is rewritten in place)
	sk, ssa := "unknown(no such method)", false
	if fd, ok := g.methods["marshallOptions.apply"]; ok && fd.Body != nil {
		ssa = c14SSAParamCopy(fd)
		sk = strings.ReplaceAll(c14Translate(g, fd), "=true)", "=<pure>)")
	}
	fmt.Fprintf(b, "/-- statement skeleton of `(*marshallOptions).apply` (copy named apart from the receiver: %v) -/\ndef applySkeleton : String := %s\n\n", ssa, leanStr(sk))
	fmt.Fprintf(logw, "c14 apply: %d functions return *Project, apply skeleton %d bytes (ssa=%v)\n", len(rows), len(sk), ssa)
}
