package main

// Facts for property C10, regenerated from the source on every run (Gen/C10Facts.lean):
// the constants the consistency rules compare against, the error sites of checkConsistency in source order
// (so that a deleted / added / reordered rule changes a fact a theorem depends on), the keys checkExternal tolerates.

import (
	"fmt"
	"go/ast"
	"go/token"
	"strconv"
	"strings"
)

func init() { extraGenerators = append(extraGenerators, genC10Facts) }

// errorSites lists the format strings of the `fmt.Errorf` / `errors.New` calls of a function, in source order.
func errorSites(f *ast.File, fn string) []string {
	var out []string
	for _, d := range f.Decls {
		fd, ok := d.(*ast.FuncDecl)
		if !ok || fd.Name.Name != fn {
			continue
		}
		ast.Inspect(fd, func(n ast.Node) bool {
			if call, ok := n.(*ast.CallExpr); ok && len(call.Args) > 0 {
				if name := src(call.Fun); name == "fmt.Errorf" || name == "errors.New" {
					if bl, ok := call.Args[0].(*ast.BasicLit); ok && bl.Kind == token.STRING {
						if s, err := strconv.Unquote(bl.Value); err == nil {
							out = append(out, s)
						}
					}
				}
			}
			return true
		})
	}
	return out
}

// caseLiterals lists, per `case` clause of the function that consists of expressions only, the source text of its expressions.
func caseLiterals(f *ast.File, fn string) [][]string {
	var out [][]string
	for _, d := range f.Decls {
		fd, ok := d.(*ast.FuncDecl)
		if !ok || fd.Name.Name != fn {
			continue
		}
		ast.Inspect(fd, func(n ast.Node) bool {
			if cc, ok := n.(*ast.CaseClause); ok && len(cc.List) > 0 {
				var l []string
				for _, e := range cc.List {
					if bl, ok := e.(*ast.BasicLit); ok && bl.Kind == token.STRING {
						s, _ := strconv.Unquote(bl.Value)
						l = append(l, s)
					} else {
						l = append(l, "<"+src(e)+">")
					}
				}
				out = append(out, l)
			}
			return true
		})
	}
	return out
}

func genC10Facts() (string, string) {
	var b strings.Builder
	b.WriteString(header + "namespace CV.Gen\n\n")
	tt := parse("types/types.go")
	fmt.Fprintf(&b, "def c10_servicePrefix : String := %s\n", leanStr(stringVar(tt, "ServicePrefix")))
	fmt.Fprintf(&b, "def c10_volumeTypeVolume : String := %s\n", leanStr(stringVar(tt, "VolumeTypeVolume")))
	fmt.Fprintf(&b, "def c10_watchActionRebuild : String := %s\n", leanStr(stringVar(parse("types/develop.go"), "WatchActionRebuild")))
	fmt.Fprintf(&b, "def c10_extensionsKey : String := %s\n", leanStr(stringVar(parse("consts/consts.go"), "Extensions")))
	vf := parse("loader/validate.go")
	sites := errorSites(vf, "checkConsistency")
	fmt.Fprintf(&b, "/-- loader/validate.go checkConsistency: format strings of its error returns, in source order -/\ndef c10_consistencyErrorSites : List String := [\n  %s]\n",
		strings.Join(quoteAll(sites), ",\n  "))
	cases := caseLiterals(vf, "checkConsistency")
	b.WriteString("/-- `case` lists inside checkConsistency (the accepted healthcheck test kinds) -/\ndef c10_consistencyCases : List (List String) := [")
	for i, c := range cases {
		if i > 0 {
			b.WriteString(", ")
		}
		b.WriteString("[" + joinLean(c) + "]")
	}
	b.WriteString("]\n")
	ext := caseLiterals(parse("validation/external.go"), "checkExternal")
	b.WriteString("/-- `case` lists inside validation.checkExternal (keys tolerated next to `external: true`) -/\ndef c10_externalCases : List (List String) := [")
	for i, c := range ext {
		if i > 0 {
			b.WriteString(", ")
		}
		b.WriteString("[" + joinLean(c) + "]")
	}
	b.WriteString("]\n")
	val := parse("validation/validation.go")
	fmt.Fprintf(&b, "def c10_validationErrorSites : List String := [%s]\n", joinLean(append(append(errorSites(val, "checkFileObject"), errorSites(val, "checkPath")...), errorSites(val, "checkDeviceRequest")...)))
	fmt.Fprintf(&b, "def c10_graphErrorSites : List String := [%s]\n", joinLean(append(errorSites(parse("graph/services.go"), "newGraph"), errorSites(parse("graph/cycle.go"), "searchCycle")...)))
	// printed bodies (space-normalised, no comments) of the small functions the model mirrors statement by statement:
	// any edit to one of them changes a fact that `Props/C10.lean` pins
	tf := parse("types/types.go")
	pf := parse("types/project.go")
	sf := parse("graph/services.go")
	cf := parse("graph/cycle.go")
	for _, e := range []struct{ name, body string }{
		{"c10_body_GetScale", funcBody(tf, "ServiceConfig", "GetScale")},
		{"c10_body_GetService", funcBody(pf, "Project", "GetService")},
		{"c10_body_GetServices", funcBody(pf, "Project", "GetServices")},
		{"c10_body_newGraph", funcBody(sf, "", "newGraph")},
		{"c10_body_CheckCycle", funcBody(cf, "", "CheckCycle")},
		{"c10_body_checkCycle", funcBody(cf, "graph[T]", "checkCycle")},
		{"c10_body_searchCycle", funcBody(cf, "", "searchCycle")},
		{"c10_body_check", funcBody(val, "", "check")},
		{"c10_body_checkFileObject", funcBody(val, "", "checkFileObject")},
		{"c10_body_checkPath", funcBody(val, "", "checkPath")},
		{"c10_body_checkDeviceRequest", funcBody(val, "", "checkDeviceRequest")},
		{"c10_body_checkExternal", funcBody(parse("validation/external.go"), "", "checkExternal")},
		{"c10_body_checkVolume", funcBody(parse("validation/volume.go"), "", "checkVolume")},
	} {
		fmt.Fprintf(&b, "def %s : String := %s\n", e.name, leanStr(e.body))
	}
	b.WriteString("\nend CV.Gen\n")
	fmt.Fprintf(logw, "C10 facts: %d error sites in checkConsistency, %d case lists\n", len(sites), len(cases))
	return "C10Facts.lean", b.String()
}

func quoteAll(l []string) []string {
	var q []string
	for _, s := range l {
		q = append(q, leanStr(s))
	}
	return q
}
