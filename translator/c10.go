package main

// Facts for property C10, regenerated from the source on every run (Gen/C10Facts.lean):
// the constants the consistency rules compare against, the error sites of checkConsistency in source order
// (so that a deleted / added / reordered rule changes a fact a theorem depends on), the keys checkExternal tolerates.

import (
	"fmt"
	"go/ast"
	"go/token"
	"strconv"
	"strings"
)

func init() { extraGenerators = append(extraGenerators, genC10Facts) }

// errorSites lists the format strings of the `fmt.Errorf` / `errors.New` calls of a function, in source order.
func errorSites(f *ast.File, fn string) []string {
	var out []string
	for _, d := range f.Decls {
		fd, ok := d.(*ast.FuncDecl)
		if !ok || fd.Name.Name != fn {
			continue
		}
		ast.Inspect(fd, func(n ast.Node) bool {
			if call, ok := n.(*ast.CallExpr); ok && len(call.Args) > 0 {
				if name := src(call.Fun); name == "fmt.Errorf" || name == "errors.New" {
					if bl, ok := call.Args[0].(*ast.BasicLit); ok && bl.Kind == token.STRING {
						if s, err := strconv.Unquote(bl.Value); err == nil {
							out = append(out, s)
						}
					}
				}
			}
			return true
		})
	}
	return out
}

// caseLiterals lists, per `case` clause of the function that consists of expressions only, the source text of its expressions.
func caseLiterals(f *ast.File, fn string) [][]string {
	var out [][]string
	for _, d := range f.Decls {
		fd, ok := d.(*ast.FuncDecl)
		if !ok || fd.Name.Name != fn {
			continue
		}
		ast.Inspect(fd, func(n ast.Node) bool {
			if cc, ok := n.(*ast.CaseClause); ok && len(cc.List) > 0 {
				var l []string
				for _, e := range cc.List {
					if bl, ok := e.(*ast.BasicLit); ok && bl.Kind == token.STRING {
						s, _ := strconv.Unquote(bl.Value)
						l = append(l, s)
					} else {
						l = append(l, "<"+src(e)+">")
					}
				}
				out = append(out, l)
			}
			return true
		})
	}
	return out
}

func genC10Facts() (string, string) {
	var b strings.Builder
	b.WriteString(header + "namespace CV.Gen\n\n")
	tt := parse("types/types.go")
	fmt.Fprintf(&b, "def c10_servicePrefix : String := %s\n", leanStr(stringVar(tt, "ServicePrefix")))
	fmt.Fprintf(&b, "def c10_volumeTypeVolume : String := %s\n", leanStr(stringVar(tt, "VolumeTypeVolume")))
	fmt.Fprintf(&b, "def c10_watchActionRebuild : String := %s\n", leanStr(stringVar(parse("types/develop.go"), "WatchActionRebuild")))
	fmt.Fprintf(&b, "def c10_extensionsKey : String := %s\n", leanStr(stringVar(parse("consts/consts.go"), "Extensions")))
	vf := parse("loader/validate.go")
	sites := errorSites(vf, "checkConsistency")
	fmt.Fprintf(&b, "/-- loader/validate.go checkConsistency: format strings of its error returns, in source order -/\ndef c10_consistencyErrorSites : List String := [\n  %s]\n",
		strings.Join(quoteAll(sites), ",\n  "))
	cases := caseLiterals(vf, "checkConsistency")
	b.WriteString("/-- `case` lists inside checkConsistency (the accepted healthcheck test kinds) -/\ndef c10_consistencyCases : List (List String) := [")
	for i, c := range cases {
		if i > 0 {
			b.WriteString(", ")
		}
		b.WriteString("[" + joinLean(c) + "]")
	}
	b.WriteString("]\n")
	ext := caseLiterals(parse("validation/external.go"), "checkExternal")
	b.WriteString("/-- `case` lists inside validation.checkExternal (keys tolerated next to `external: true`) -/\ndef c10_externalCases : List (List String) := [")
	for i, c := range ext {
		if i > 0 {
			b.WriteString(", ")
		}
		b.WriteString("[" + joinLean(c) + "]")
	}
	b.WriteString("]\n")
	ab := caseLiterals(parse("validation/external.go"), "asBoolean")
	b.WriteString("/-- `case` lists inside validation.asBoolean (type cases and the table of spellings read from a not-yet-cast string), in source order -/\ndef c10_asBooleanCases : List (List String) := [")
	for i, c := range ab {
		if i > 0 {
			b.WriteString(", ")
		}
		b.WriteString("[" + joinLean(c) + "]")
	}
	b.WriteString("]\n")
	val := parse("validation/validation.go")
	fmt.Fprintf(&b, "def c10_validationErrorSites : List String := [%s]\n", joinLean(append(append(errorSites(val, "checkFileObject"), errorSites(val, "checkPath")...), errorSites(val, "checkDeviceRequest")...)))
	fmt.Fprintf(&b, "def c10_graphErrorSites : List String := [%s]\n", joinLean(append(errorSites(parse("graph/services.go"), "newGraph"), errorSites(parse("graph/cycle.go"), "searchCycle")...)))
	// printed bodies (space-normalised, no comments) of the small functions the model mirrors statement by statement:
	// any edit to one of them changes a fact that `Props/C10.lean` pins
	tf := parse("types/types.go")
	pf := parse("types/project.go")
	sf := parse("graph/services.go")
	cf := parse("graph/cycle.go")
	for _, e := range []struct{ name, body string }{
		{"c10_body_GetScale", funcBody(tf, "ServiceConfig", "GetScale")},
		{"c10_body_GetService", funcBody(pf, "Project", "GetService")},
		{"c10_body_GetServices", funcBody(pf, "Project", "GetServices")},
		{"c10_body_newGraph", funcBody(sf, "", "newGraph")},
		{"c10_body_CheckCycle", funcBody(cf, "", "CheckCycle")},
		{"c10_body_checkCycle", funcBody(cf, "graph[T]", "checkCycle")},
		{"c10_body_searchCycle", funcBody(cf, "", "searchCycle")},
		{"c10_body_check", funcBody(val, "", "check")},
		{"c10_body_checkFileObject", funcBody(val, "", "checkFileObject")},
		{"c10_body_checkPath", funcBody(val, "", "checkPath")},
		{"c10_body_checkDeviceRequest", funcBody(val, "", "checkDeviceRequest")},
		{"c10_body_checkExternal", funcBody(parse("validation/external.go"), "", "checkExternal")},
		{"c10_body_checkVolume", funcBody(parse("validation/volume.go"), "", "checkVolume")},
		// round 6: the helper that reads `external` when the cast table has not run (SkipInterpolation)
		{"c10_body_asBoolean", funcBody(parse("validation/external.go"), "", "asBoolean")},
	} {
		fmt.Fprintf(&b, "def %s : String := %s\n", e.name, leanStr(e.body))
	}
	// ---- the glue around the two checks (round 5): which option guards which check, in which function, and what the
	// option copies handed to included / extended files change
	lf := parse("loader/loader.go")
	fmt.Fprintf(&b, "def c10_body_clone : String := %s\n", leanStr(funcBody(lf, "Options", "clone")))
	b.WriteString("/-- `if !opts.SkipX { … }` statements of the load pipeline that contain one of the checks: (function, condition, checks called inside, in order) -/\ndef c10_checkGuards : List (String × String × List String) := [")
	first := true
	for _, fn := range []string{"loadYamlModel", "loadYamlFile", "modelToProject"} {
		for _, g := range guardedChecks(lf, fn) {
			if !first {
				b.WriteString(", ")
			}
			first = false
			fmt.Fprintf(&b, "\n  (%s, %s, [%s])", leanStr(fn), leanStr(g.cond), joinLean(g.calls))
		}
	}
	b.WriteString("]\n")
	b.WriteString("/-- every call of a check in those functions (guarded or not), in source order -/\n")
	var allCalls []string
	for _, fn := range []string{"loadYamlModel", "loadYamlFile", "modelToProject"} {
		for _, c := range checkCalls(lf, fn) {
			allCalls = append(allCalls, fn+":"+c)
		}
	}
	fmt.Fprintf(&b, "def c10_checkCalls : List String := [%s]\n", joinLean(allCalls))
	for _, e := range []struct{ name, file, fn, v string }{
		{"c10_includeOptWrites", "loader/include.go", "ApplyInclude", "loadOptions"},
		{"c10_extendsOptWrites", "loader/extends.go", "getExtendsBaseFromFile", "extendsOpts"},
	} {
		init, ws := optWrites(parse(e.file), e.fn, e.v)
		fmt.Fprintf(&b, "/-- %s %s: how `%s` is created and the boolean fields written afterwards, in source order -/\ndef %s : String × List (String × String) := (%s, [",
			e.file, e.fn, e.v, e.name, leanStr(init))
		for i, w := range ws {
			if i > 0 {
				b.WriteString(", ")
			}
			fmt.Fprintf(&b, "(%s, %s)", leanStr(w[0]), leanStr(w[1]))
		}
		b.WriteString("])\n")
	}
	b.WriteString("\nend CV.Gen\n")
	fmt.Fprintf(logw, "C10 facts: %d error sites in checkConsistency, %d case lists\n", len(sites), len(cases))
	return "C10Facts.lean", b.String()
}

func quoteAll(l []string) []string {
	var q []string
	for _, s := range l {
		q = append(q, leanStr(s))
	}
	return q
}

var c10CheckNames = map[string]bool{"validation.Validate": true, "schema.Validate": true, "checkConsistency": true}

type guardedCheck struct {
	cond  string
	calls []string
}

func c10FindFunc(f *ast.File, fn string) *ast.FuncDecl {
	for _, d := range f.Decls {
		if fd, ok := d.(*ast.FuncDecl); ok && fd.Name.Name == fn && fd.Recv == nil {
			return fd
		}
	}
	return nil
}

func checkCallsIn(n ast.Node) []string {
	var out []string
	ast.Inspect(n, func(n ast.Node) bool {
		if call, ok := n.(*ast.CallExpr); ok && c10CheckNames[src(call.Fun)] {
			out = append(out, src(call.Fun))
		}
		return true
	})
	return out
}

// checkCalls lists every call of one of the checks inside the function, in source order.
func checkCalls(f *ast.File, fn string) []string {
	fd := c10FindFunc(f, fn)
	if fd == nil {
		return []string{"missing:" + fn}
	}
	return checkCallsIn(fd.Body)
}

// guardedChecks lists, in source order, every place of the function (closures included) where one of the checks is called:
// the condition of the outermost `if` whose body contains the call, or "<unguarded>".
func guardedChecks(f *ast.File, fn string) []guardedCheck {
	fd := c10FindFunc(f, fn)
	if fd == nil {
		return []guardedCheck{{cond: "missing:" + fn}}
	}
	var out []guardedCheck
	ast.Inspect(fd.Body, func(n ast.Node) bool {
		switch s := n.(type) {
		case *ast.IfStmt:
			if s.Init != nil {
				if calls := checkCallsIn(s.Init); len(calls) > 0 {
					out = append(out, guardedCheck{cond: "<unguarded>", calls: calls})
					return false
				}
			}
			if calls := checkCallsIn(s.Body); len(calls) > 0 {
				out = append(out, guardedCheck{cond: src(s.Cond), calls: calls})
				if s.Else != nil {
					if calls := checkCallsIn(s.Else); len(calls) > 0 {
						out = append(out, guardedCheck{cond: "else of " + src(s.Cond), calls: calls})
					}
				}
				return false
			}
		case *ast.CallExpr:
			if c10CheckNames[src(s.Fun)] {
				out = append(out, guardedCheck{cond: "<unguarded>", calls: []string{src(s.Fun)}})
			}
		}
		return true
	})
	return out
}

// optWrites returns the right-hand side that creates variable v inside fn and the `v.Field = true|false` statements that follow.
func optWrites(f *ast.File, fn, v string) (string, [][2]string) {
	fd := c10FindFunc(f, fn)
	if fd == nil {
		return "missing:" + fn, nil
	}
	init := "missing:" + v
	var ws [][2]string
	ast.Inspect(fd.Body, func(n ast.Node) bool {
		as, ok := n.(*ast.AssignStmt)
		if !ok || len(as.Lhs) != 1 || len(as.Rhs) != 1 {
			return true
		}
		if id, ok := as.Lhs[0].(*ast.Ident); ok && id.Name == v && as.Tok == token.DEFINE {
			init = src(as.Rhs[0])
		}
		if sel, ok := as.Lhs[0].(*ast.SelectorExpr); ok {
			if id, ok := sel.X.(*ast.Ident); ok && id.Name == v {
				if r, ok := as.Rhs[0].(*ast.Ident); ok && (r.Name == "true" || r.Name == "false") {
					ws = append(ws, [2]string{sel.Sel.Name, r.Name})
				}
			}
		}
		return true
	})
	return init, ws
}
