package main

// Source facts for property C04 (Gen/C04Source.lean), regenerated on every run: the printed bodies (no comments,
// white space normalised) of every function the Lean models Model/Merge.lean, Model/Unicity.lean and Model/Reset.lean
// mirror, the list of functions of override/merge.go and override/uncity.go (a new merger / indexer shows up), the
// per-document decode loop of loader.loadYamlFile and the order of the stages inside its processRawYaml closure.
// Props/C04Source.lean pins all of them: an edit to a modelled function breaks an obligation even when no generated
// input happens to tell the two versions apart.

import (
	"fmt"
	"go/ast"
	"strings"
)

func init() { extraGenerators = append(extraGenerators, genC04Source) }

func c04FuncNames(f *ast.File) []string {
	var out []string
	for _, d := range f.Decls {
		if fd, ok := d.(*ast.FuncDecl); ok {
			n := fd.Name.Name
			if fd.Recv != nil && len(fd.Recv.List) == 1 {
				n = strings.TrimPrefix(src(fd.Recv.List[0].Type), "*") + "." + n
			}
			out = append(out, n)
		}
	}
	return out
}

func c04FindFunc(f *ast.File, name string) *ast.FuncDecl {
	for _, d := range f.Decls {
		if fd, ok := d.(*ast.FuncDecl); ok && fd.Name.Name == name && fd.Body != nil {
			return fd
		}
	}
	return nil
}

// c04DecodeLoop prints the `for` statement of loadYamlFile that decodes one YAML document per iteration.
func c04DecodeLoop(f *ast.File) string {
	fd := c04FindFunc(f, "loadYamlFile")
	if fd == nil {
		return "unknown:missing loadYamlFile"
	}
	out := "unknown:no decode loop"
	ast.Inspect(fd, func(n ast.Node) bool {
		if fs, ok := n.(*ast.ForStmt); ok {
			text := strings.Join(strings.Fields(src(fs)), " ")
			if strings.Contains(text, "decoder.Decode(") {
				out = text
				return false
			}
		}
		return true
	})
	return out
}

// c04StageCalls lists, in source order, the functions called inside the processRawYaml closure of loadYamlFile.
func c04StageCalls(f *ast.File) []string {
	fd := c04FindFunc(f, "loadYamlFile")
	if fd == nil {
		return []string{"unknown:missing loadYamlFile"}
	}
	var lit *ast.FuncLit
	ast.Inspect(fd, func(n ast.Node) bool {
		if as, ok := n.(*ast.AssignStmt); ok && len(as.Lhs) == 1 && len(as.Rhs) == 1 && src(as.Lhs[0]) == "processRawYaml" {
			if fl, ok := as.Rhs[0].(*ast.FuncLit); ok && lit == nil {
				lit = fl
			}
		}
		return true
	})
	if lit == nil {
		return []string{"unknown:no processRawYaml closure"}
	}
	var out []string
	ast.Inspect(lit.Body, func(n ast.Node) bool {
		if call, ok := n.(*ast.CallExpr); ok {
			name := src(call.Fun)
			switch name {
			case "errors.New", "fmt.Errorf", "append", "delete":
			default:
				out = append(out, name)
			}
		}
		return true
	})
	return out
}

func genC04Source() (string, string) {
	var b strings.Builder
	b.WriteString(header + "namespace CV.Gen\n\n")
	mf := parse("override/merge.go")
	uf := parse("override/uncity.go")
	ef := parse("override/extends.go")
	rf := parse("loader/reset.go")
	pf := parse("tree/path.go")
	lf := parse("loader/loader.go")
	of := parse("loader/omitEmpty.go")
	fmt.Fprintf(&b, "/-- every function of override/merge.go, in source order -/\ndef c04_functions_merge : List String := [%s]\n", joinLean(c04FuncNames(mf)))
	fmt.Fprintf(&b, "/-- every function of override/uncity.go, in source order -/\ndef c04_functions_uncity : List String := [%s]\n", joinLean(c04FuncNames(uf)))
	n := 0
	for _, e := range []struct {
		f          *ast.File
		recv, name string
	}{
		{mf, "", "Merge"}, {mf, "", "mergeYaml"}, {mf, "", "mergeMappings"}, {mf, "", "mergeLogging"}, {mf, "", "sameScalar"},
		{mf, "", "mergeBuild"}, {mf, "", "mergeDependsOn"}, {mf, "", "mergeNetworks"}, {mf, "", "mergeExtraHosts"},
		{mf, "", "mergeToSequence"}, {mf, "", "convertIntoSequence"}, {mf, "", "mergeUlimit"}, {mf, "", "mergeIPAMConfig"},
		{mf, "", "ipamPools"}, {mf, "", "convertIntoMapping"}, {mf, "", "copyMap"}, {mf, "", "override"},
		{ef, "", "ExtendService"},
		{uf, "", "EnforceUnicity"}, {uf, "", "enforceUnicity"}, {uf, "", "keyValueIndexer"}, {uf, "", "volumeIndexer"},
		{uf, "", "deviceMappingIndexer"}, {uf, "", "exposeIndexer"}, {uf, "", "mountIndexer"}, {uf, "", "portIndexer"}, {uf, "", "envFileIndexer"},
		{rf, "ResetProcessor", "resolveReset"}, {rf, "ResetProcessor", "Apply"}, {rf, "ResetProcessor", "applyNullOverrides"},
		{pf, "Path", "Next"}, {pf, "Path", "Parts"}, {pf, "Path", "Matches"},
		{of, "", "omitEmpty"},
	} {
		fmt.Fprintf(&b, "def c04_body_%s : String := %s\n", e.name, leanStr(funcBody(e.f, e.recv, e.name)))
		n++
	}
	fmt.Fprintf(&b, "/-- loader/loader.go loadYamlFile: the loop that decodes one `---` document per iteration -/\ndef c04_decodeLoop : String := %s\n", leanStr(c04DecodeLoop(lf)))
	fmt.Fprintf(&b, "/-- loader/loader.go loadYamlFile: functions called by the processRawYaml closure, in source order -/\ndef c04_stageCalls : List String := [%s]\n", joinLean(c04StageCalls(lf)))
	b.WriteString("\nend CV.Gen\n")
	fmt.Fprintf(logw, "C04 source facts: %d function bodies\n", n)
	return "C04Source.lean", b.String()
}
