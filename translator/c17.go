package main

// Facts for C17 (Gen/NameFacts.lean): the constants the model of loader.NormalizeProjectName and of the
// option machine was written against — the regexp literal, the TrimLeft cutset, the order of the string
// operations, the names of the two environment variables, and the precedence test of withNamePrecedenceLoad
// (conditions of the if / else-if chain, in source order).

import (
	"fmt"
	"go/ast"
	"go/token"
	"strconv"
	"strings"
)

func init() { extraGenerators = append(extraGenerators, c17GenNameFacts) }

func c17FindFunc(f *ast.File, name string) *ast.FuncDecl {
	for _, d := range f.Decls {
		if fd, ok := d.(*ast.FuncDecl); ok && fd.Name.Name == name && fd.Body != nil {
			return fd
		}
	}
	return nil
}

func c17LitArg(c *ast.CallExpr, i int) string {
	if i < len(c.Args) {
		if bl, ok := c.Args[i].(*ast.BasicLit); ok && bl.Kind == token.STRING {
			if s, err := strconv.Unquote(bl.Value); err == nil {
				return s
			}
		}
	}
	return "unknown:" + src(c)
}

func c17ConstString(f *ast.File, name string) string {
	out := "unknown:" + name
	ast.Inspect(f, func(n ast.Node) bool {
		if vs, ok := n.(*ast.ValueSpec); ok {
			for i, id := range vs.Names {
				if id.Name == name && i < len(vs.Values) {
					if bl, ok := vs.Values[i].(*ast.BasicLit); ok {
						if s, err := strconv.Unquote(bl.Value); err == nil {
							out = s
						}
					}
				}
			}
		}
		return true
	})
	return out
}

func c17GenNameFacts() (string, string) {
	var b strings.Builder
	b.WriteString(header + "namespace CV.Gen\n\n")
	lf := parse("loader/loader.go")
	regex, cutset := "unknown:no regexp.MustCompile", "unknown:no strings.TrimLeft"
	var calls []string
	if fd := c17FindFunc(lf, "NormalizeProjectName"); fd != nil {
		ast.Inspect(fd.Body, func(n ast.Node) bool {
			if c, ok := n.(*ast.CallExpr); ok {
				fn := src(c.Fun)
				calls = append(calls, fn)
				switch fn {
				case "regexp.MustCompile":
					regex = c17LitArg(c, 0)
				case "strings.TrimLeft":
					cutset = c17LitArg(c, 1)
				}
			}
			return true
		})
	}
	fmt.Fprintf(&b, "def normalize_regex : String := %s\n", leanStr(regex))
	fmt.Fprintf(&b, "def normalize_cutset : String := %s\n", leanStr(cutset))
	fmt.Fprintf(&b, "/-- the calls of NormalizeProjectName in source (pre-order) order -/\ndef normalize_calls : List String := [%s]\n", joinLean(calls))
	cf := parse("consts/consts.go")
	fmt.Fprintf(&b, "def const_ComposeProjectName : String := %s\n", leanStr(c17ConstString(cf, "ComposeProjectName")))
	fmt.Fprintf(&b, "def const_ComposeDisableDefaultEnvFile : String := %s\n", leanStr(c17ConstString(cf, "ComposeDisableDefaultEnvFile")))
	fmt.Fprintf(&b, "def const_ComposeFilePath : String := %s\n", leanStr(c17ConstString(cf, "ComposeFilePath")))
	fmt.Fprintf(&b, "def const_ComposePathSeparator : String := %s\n", leanStr(c17ConstString(cf, "ComposePathSeparator")))
	// cli.DefaultFileNames / DefaultOverrideFileNames (order of preference)
	of0 := parse("cli/options.go")
	for _, v := range []string{"DefaultFileNames", "DefaultOverrideFileNames"} {
		var names []string
		ok := false
		ast.Inspect(of0, func(n ast.Node) bool {
			if vs, isVS := n.(*ast.ValueSpec); isVS {
				for i, id := range vs.Names {
					if id.Name == v && i < len(vs.Values) {
						if cl, isCL := vs.Values[i].(*ast.CompositeLit); isCL {
							ok = true
							for _, e := range cl.Elts {
								if bl, isBL := e.(*ast.BasicLit); isBL {
									if s, err := strconv.Unquote(bl.Value); err == nil {
										names = append(names, s)
										continue
									}
								}
								names = append(names, "unknown:"+src(e))
							}
						}
					}
				}
			}
			return true
		})
		if !ok {
			names = []string{"unknown:" + v}
		}
		fmt.Fprintf(&b, "def cli_%s : List String := [%s]\n", v, joinLean(names))
	}
	// withNamePrecedenceLoad: the conditions of the if / else-if chain of the returned closure
	var conds []string
	of := parse("cli/options.go")
	if fd := c17FindFunc(of, "withNamePrecedenceLoad"); fd != nil {
		ast.Inspect(fd.Body, func(n ast.Node) bool {
			if fl, ok := n.(*ast.FuncLit); ok {
				for _, st := range fl.Body.List {
					for is, ok := st.(*ast.IfStmt); ok && is != nil; {
						c := strings.Join(strings.Fields(src(is.Cond)), " ")
						if is.Init != nil {
							c = strings.Join(strings.Fields(src(is.Init)), " ") + "; " + c
						}
						conds = append(conds, c)
						next, isIf := is.Else.(*ast.IfStmt)
						if !isIf {
							break
						}
						is = next
					}
				}
				return false
			}
			return true
		})
	}
	fmt.Fprintf(&b, "/-- withNamePrecedenceLoad: conditions tested in order before falling back to the directory name -/\ndef namePrecedence_conds : List String := [%s]\n\n", joinLean(conds))
	// printed bodies (space-normalised, no comments) of the functions the model mirrors statement by statement
	ldf := parse("loader/loader.go")
	for _, e := range []struct{ name, body string }{
		{"c17_body_NewProjectOptions", funcBody(of, "", "NewProjectOptions")},
		{"c17_body_WithName", funcBody(of, "", "WithName")},
		{"c17_body_WithWorkingDirectory", funcBody(of, "", "WithWorkingDirectory")},
		{"c17_body_WithConfigFileEnv", funcBody(of, "", "WithConfigFileEnv")},
		{"c17_body_WithDefaultConfigPath", funcBody(of, "", "WithDefaultConfigPath")},
		{"c17_body_WithEnv", funcBody(of, "", "WithEnv")},
		{"c17_body_WithOsEnv", funcBody(of, "", "WithOsEnv")},
		{"c17_body_WithEnvFiles", funcBody(of, "", "WithEnvFiles")},
		{"c17_body_WithDotEnv", funcBody(of, "", "WithDotEnv")},
		{"c17_body_GetWorkingDir", funcBody(of, "ProjectOptions", "GetWorkingDir")},
		{"c17_body_withNamePrecedenceLoad", funcBody(of, "", "withNamePrecedenceLoad")},
		{"c17_body_findFiles", funcBody(of, "", "findFiles")},
		{"c17_body_absolutePaths", funcBody(of, "", "absolutePaths")},
		{"c17_body_projectName", funcBody(ldf, "", "projectName")},
		{"c17_body_NormalizeProjectName", funcBody(ldf, "", "NormalizeProjectName")},
		{"c17_body_GetEnvFromFile", funcBody(parse("dotenv/env.go"), "", "GetEnvFromFile")},
		{"c17_body_MappingMerge", funcBody(parse("types/mapping.go"), "Mapping", "Merge")},
		{"c17_body_GetAsEqualsMap", funcBody(parse("utils/stringutils.go"), "", "GetAsEqualsMap")},
		// round 5: the loader-level entry and the glue between the cli and the loader
		{"c17_body_SetProjectName", funcBody(ldf, "Options", "SetProjectName")},
		{"c17_body_loadModelWithContext", funcBody(ldf, "", "loadModelWithContext")},
		{"c17_body_WithInterpolation", funcBody(of, "", "WithInterpolation")},
		{"c17_body_WithEnvFile", funcBody(of, "", "WithEnvFile")},
		{"c17_body_LoadProject", funcBody(of, "ProjectOptions", "LoadProject")},
		{"c17_body_prepare", funcBody(of, "ProjectOptions", "prepare")},
		// round 6: the profile options (COMPOSE_PROFILES) and what the loaded project does with the selection
		{"c17_body_WithDefaultProfiles", funcBody(of, "", "WithDefaultProfiles")},
		{"c17_body_WithProfiles", funcBody(of, "", "WithProfiles")},
		{"c17_body_WithLoadOptions", funcBody(of, "", "WithLoadOptions")},
		{"c17_body_loaderWithProfiles", funcBody(ldf, "", "WithProfiles")},
		{"c17_body_HasProfile", funcBody(parse("types/project.go"), "ServiceConfig", "HasProfile")},
		{"c17_body_LoadModel", funcBody(of, "ProjectOptions", "LoadModel")},
		{"c17_body_ProjectWithProfiles", funcBody(parse("types/project.go"), "Project", "WithProfiles")},
	} {
		fmt.Fprintf(&b, "def %s : String := %s\n", e.name, leanStr(e.body))
	}
	b.WriteString("\n")
	// round 6: where the resolved project name enters the model that Normalize names the resources from
	// (loader.load: the statements guarded by `!opts.SkipNormalization`, up to the call of Normalize), the
	// format of an implicit resource name, and the COMPOSE_PROFILES constant
	nameInto := []string{}
	if fd := c17FindFunc(ldf, "load"); fd != nil {
		ast.Inspect(fd.Body, func(n ast.Node) bool {
			is, ok := n.(*ast.IfStmt)
			if !ok || strings.Join(strings.Fields(src(is.Cond)), "") != "!opts.SkipNormalization" {
				return true
			}
			for _, st := range is.Body.List {
				t := strings.Join(strings.Fields(src(st)), " ")
				nameInto = append(nameInto, t)
				if strings.Contains(t, "Normalize(") {
					break
				}
			}
			return false
		})
	}
	fmt.Fprintf(&b, "/-- loader.load: from `if !opts.SkipNormalization {` to the call of Normalize -/\ndef c17_nameIntoModel : List String := [%s]\n", joinLean(nameInto))
	resFmt := []string{}
	if fd := c17FindFunc(parse("loader/normalize.go"), "setNameFromKey"); fd != nil {
		ast.Inspect(fd.Body, func(n ast.Node) bool {
			if c, ok := n.(*ast.CallExpr); ok && src(c.Fun) == "fmt.Sprintf" {
				resFmt = append(resFmt, strings.Join(strings.Fields(src(c)), " "))
			}
			return true
		})
	}
	fmt.Fprintf(&b, "/-- setNameFromKey: the Sprintf calls that build an implicit resource name -/\ndef c17_resourceNameFmt : List String := [%s]\n", joinLean(resFmt))
	fmt.Fprintf(&b, "def c17_composeProfilesConst : String := %s\n\n", leanStr(c17ConstString(parse("consts/consts.go"), "ComposeProfiles")))
	fmt.Fprintf(logw, "name facts: regex %q cutset %q calls %d conds %d\n", regex, cutset, len(calls), len(conds))
	b.WriteString("end CV.Gen\n")
	return "NameFacts.lean", b.String()
}
