package main

// Gen/OmitEmpty.lean — the `omitempty` table of loader/omitEmpty.go (the paths whose empty value is dropped after
// canonicalisation) as pattern parts (the bodies of the functions that read it are pinned by Gen/C01Source and Gen/C04Source).  Until round 6 the
// composed-pipeline model was handed this table at run time by the harness (loader.VerifOmitEmptyPatterns); with the
// regenerated table the theorems about `Pipeline.load` can be instantiated at the table the code has *now*, and the
// run-time value is compared with it by the pipeline streams' judge.

import (
	"fmt"
	"go/ast"
	"go/token"
	"strconv"
	"strings"
)

func init() { extraGenerators = append(extraGenerators, genOmitEmpty) }

func genOmitEmpty() (string, string) {
	var b strings.Builder
	b.WriteString(header + "namespace CV.Gen\n\n")
	f := parse("loader/omitEmpty.go")
	var rows []string
	found := false
	for _, d := range f.Decls {
		gd, ok := d.(*ast.GenDecl)
		if !ok || gd.Tok != token.VAR {
			continue
		}
		for _, sp := range gd.Specs {
			vs := sp.(*ast.ValueSpec)
			for i, id := range vs.Names {
				if id.Name != "omitempty" || i >= len(vs.Values) {
					continue
				}
				found = true
				cl, ok := vs.Values[i].(*ast.CompositeLit)
				if !ok {
					rows = append(rows, "[\"unknown:"+strings.ReplaceAll(src(vs.Values[i]), "\"", "'")+"\"]")
					continue
				}
				for _, e := range cl.Elts {
					bl, ok := e.(*ast.BasicLit)
					if !ok || bl.Kind != token.STRING {
						rows = append(rows, "[\"unknown:"+strings.ReplaceAll(src(e), "\"", "'")+"\"]")
						continue
					}
					s, _ := strconv.Unquote(bl.Value)
					var parts []string
					for _, p := range strings.Split(s, ".") {
						parts = append(parts, leanStr(p))
					}
					rows = append(rows, "["+strings.Join(parts, ", ")+"]")
				}
			}
		}
	}
	if !found {
		rows = append(rows, "[\"unknown:no var omitempty in loader/omitEmpty.go\"]")
	}
	fmt.Fprintf(&b, "/-- `var omitempty = []tree.Path{…}` of loader/omitEmpty.go, each path split at its dots -/\ndef omitempty : List (List String) := [%s]\n\n", strings.Join(rows, ", "))
	b.WriteString("\nend CV.Gen\n")
	return "OmitEmpty.lean", b.String()
}
